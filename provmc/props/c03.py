"""C03 - qualified names keep their URI and stay unambiguous under any namespace history.

BFS over interleavings of add_namespace / set_default_namespace / valid_qualified_name on a
document and bundles inheriting from it.  Oracles
  (a) on every resolution of a QualifiedName: result has the same URI            [transition]
  (b) on every call: a prefix registered before is registered with the same URI after [transition]
  (c) on every state: every name the container handed out so far, printed with str() and
      resolved again in the container that handed it out, has the same URI       [state]
  ref lock-step with the reference resolver where it defines the meaning of a string
      ('prefix:local' with a cleanly declared prefix, bare local under a default)  [transition]
"""
from prov.identifier import Namespace, QualifiedName
from prov.model import ProvDocument

from .. import explore, machine, spec
from ..machine import U, NotEnabled, AMBIG

BN = "http://bn/"


class NState(object):
    def __init__(self, nbundles):
        self.doc = ProvDocument()
        self.cont = {"D": self.doc}
        self.ref = machine.RefState()
        for i in range(nbundles):
            slot = "B%d" % (i + 1)
            self.cont[slot] = self.doc.bundle(QualifiedName(Namespace("bn", BN), "b%d" % (i + 1)))
            self.ref.sc[slot] = machine.RefScope()
            self.ref.bind_prefix(slot, "bn", BN)
        if nbundles:
            self.ref.bind_prefix("D", "bn", BN)
        self.handed = []  # (scope, QualifiedName)
        self.hist = ()


def regs(c):
    d = {}
    for ns in c.namespaces:
        d.setdefault(ns.prefix, set()).add(ns.uri)
    return d


class C03(spec.Spec):
    prop = "C03"
    mutating_checks = True

    def __init__(self, tier, params=None):
        super().__init__(tier, params)
        p = self.params
        self.nb = p.get("bundles", 0)
        scopes = ["D"] + ["B%d" % (i + 1) for i in range(self.nb)]
        full = p.get("alphabet", "full")
        ops = []
        for s in scopes:
            if full == "full":
                decl = [("ex", "A"), ("ex", "B"), ("q", "A"), ("ex_1", "C"), ("dn", "C"), ("prov", "A"),
                        ("p2", "P"), ("ab", "AB")]
                qns = [("ex", "A", "x"), ("ex", "B", "x"), ("q", "A", "x"), ("", "A", "x"), ("", "B", "x"),
                       ("ex_1", "C", "x"), ("dn", "AB", "x"), ("prov", "A", "x")]
                strs = ["ex:x", "q:x", "ex_1:x", "dn:x", "x", "prov:x", "http://a/x", "http://a/b/x",
                        "http://b/x", "ex:a:b", "urn:x", "http://a/http://a/x"]
            elif full == "wide":
                # the full alphabet plus: a third URI for a clashing prefix (a prefix renamed twice), an alias later
                # used for a new URI, a generated-looking prefix that is not the next in sequence, four default namespaces
                decl = [("ex", "A"), ("ex", "B"), ("ex", "C"), ("q", "A"), ("q", "B"), ("ex_1", "C"), ("ex_2", "AB"),
                        ("dn", "C"), ("dn_2", "AB")]
                qns = [("ex", "A", "x"), ("ex", "B", "x"), ("ex", "C", "x"), ("", "A", "x"), ("", "B", "x"),
                       ("", "C", "x"), ("", "AB", "x"), ("q", "B", "x"),
                       # a local part that makes the printed name look like scheme://...
                       ("ex", "A", "//x"),
                       # unprefixed names whose local part contains a colon (printed bare they would read as prefixed)
                       ("", "A", "ex:x"), ("", "B", "zz:x")]
                strs = ["ex:x", "q:x", "ex_1:x", "ex_2:x", "dn:x", "dn_2:x", "x"]
            elif full == "core":
                decl = [("ex", "A"), ("ex", "B"), ("q", "A"), ("ex_1", "C"), ("dn", "C")]
                qns = [("ex", "A", "x"), ("ex", "B", "x"), ("", "A", "x"), ("", "B", "x"), ("ex_1", "C", "x")]
                strs = ["ex:x", "q:x", "ex_1:x", "dn:x", "x", "http://a/x", "http://b/x"]
            else:  # reduced
                decl = [("ex", "A"), ("ex", "B")]
                qns = [("ex", "B", "x"), ("", "A", "x")]
                strs = ["ex:x", "x"]
            ops += [("ns", s, p_, u) for p_, u in decl]
            ops += [("def", s, "A"), ("def", s, "B")]
            ops += [("rq", s, p_, u, l) for p_, u, l in qns]
            ops += [("rs", s, t) for t in strs]
            if full in ("core", "wide"):
                # add_namespace given a Namespace OBJECT that has already minted the name which is resolved next
                ops += [("nso", s, "ex", "A"), ("nso", s, "ex", "B")]
        self.alphabet = ops

    # -- machine ----------------------------------------------------------------------
    def build(self, hist):
        st = NState(self.nb)
        for i in hist:
            self.apply(st, self.alphabet[i])
        st.hist = tuple(hist)
        return st

    def apply(self, st, op):
        k = op[0]
        c = st.cont[op[1]]
        ref = st.ref
        st.result = None
        st.model_uri = None
        if k == "ns":
            ref.bind_prefix(op[1], op[2], U[op[3]])
            c.add_namespace(op[2], U[op[3]])
        elif k == "def":
            sc = ref.sc[op[1]]
            if sc.default is not None and sc.default != U[op[2]]:
                raise NotEnabled("H1-default-rebinding")
            if sc.default == U[op[2]] and ref.default_touched.get(op[1]):
                raise NotEnabled("default-already-set")
            sc.default = U[op[2]]
            ref.default_touched[op[1]] = True
            c.set_default_namespace(U[op[2]])
        elif k == "nso":
            _, s, prefix, urikey = op
            ns = Namespace(prefix, U[urikey])
            q = ns["x"]  # minted before the namespace object is handed to the container
            ref.bind_prefix(s, prefix, U[urikey])
            c.add_namespace(ns)
            ref.use_name(s, (urikey, "x", ("q", prefix)))
            r = c.valid_qualified_name(q)
            st.result = r
            st.model_uri = U[urikey] + "x"
            if r is not None:
                st.handed.append((s, r))
        elif k == "rq":
            _, s, prefix, urikey, local = op
            ref.use_name(s, (urikey, local, ("q", prefix)))
            r = c.valid_qualified_name(QualifiedName(Namespace(prefix, U[urikey]), local))
            st.result = r
            st.model_uri = U[urikey] + local
            if r is not None:
                st.handed.append((s, r))
        elif k == "rs":
            _, s, text = op
            st.model_uri = self.model_string(ref, s, text)
            r = c.valid_qualified_name(text)
            st.result = r
            if r is not None:
                st.handed.append((s, r))
        else:
            raise ValueError(op)

    @staticmethod
    def model_string(ref, s, text):
        """meaning of a string according to the reference resolver, or None (undefined)"""
        try:
            if "://" in text or text.startswith("urn:"):
                # a full URI denotes itself (decided by C18); its use may adopt a default
                if text.startswith("http://"):
                    try:
                        ref.use_name(s, _uri_name(text))
                    except NotEnabled:
                        pass
                return None
            if ":" in text:
                prefix, local = text.split(":", 1)
                if prefix == "":
                    return None
                return ref.resolve_prefix(s, prefix) + local
            d = ref.resolve_default(s)
            if ref.sc[s].default is None:
                ref.sc[s].default = d
            return d + text
        except NotEnabled:
            return None

    def canon(self, st):
        try:
            key = []
            for s in sorted(st.cont):
                key.append((s, machine._mgr_key(st.cont[s]._namespaces)))
            key.append(tuple(sorted(set((s, str(q), q.uri) for s, q in st.handed))))
            ref = st.ref
            key.append(tuple(sorted(
                (s, tuple(sorted((p, "?" if u is AMBIG else u) for p, u in sc.bind.items())),
                 tuple(sorted(sc.alias)), tuple(sorted(sc.reg)), "?" if sc.default is AMBIG else sc.default,
                 tuple(sorted((u, str(p_)) for u, p_ in sc.primary.items())))
                for s, sc in ref.sc.items())))
            key.append(tuple(sorted(ref.default_touched.items())))
            return repr(key)
        except AttributeError:
            return "H" + repr(st.hist)

    # -- oracles ----------------------------------------------------------------------
    def pre(self, st, op):
        return {s: regs(c) for s, c in st.cont.items()}

    def check_transition(self, pre, op, st, out):
        # (b) no registered prefix re-pointed / dropped, in any scope
        for s, c in st.cont.items():
            after = regs(c)
            for p, uris in pre[s].items():
                if p == "":
                    continue
                if after.get(p) != uris:
                    out.violation("b-prefix-repointed", "%s" % op[0],
                                  {"scope": s, "prefix": p, "before": sorted(uris), "after": sorted(after.get(p, []))},
                                  st.hist)
            for p, uris in after.items():
                if len(uris) > 1:
                    out.violation("b-prefix-ambiguous", op[0], {"scope": s, "prefix": p, "uris": sorted(uris)}, st.hist)
        if op[0] in ("rq", "nso"):
            out.nontrivial += 1
            r = st.result
            if r is None or r.uri != st.model_uri:
                out.violation("a-qualified-name-uri-changed", "rq",
                              {"given": st.model_uri, "got": None if r is None else r.uri}, st.hist)
            else:
                out.outcomes["a-ok"] += 1
        elif op[0] == "rs":
            r = st.result
            if st.model_uri is not None:
                out.nontrivial += 1
                if r is None or r.uri != st.model_uri:
                    out.violation("ref-string-resolution", "defined-meaning",
                                  {"string": op[2], "scope": op[1], "model": st.model_uri,
                                   "got": None if r is None else r.uri}, st.hist)
                else:
                    out.outcomes["ref-agree"] += 1
            else:
                out.outcomes["ref-undefined:%s" % ("none" if r is None else "some")] += 1

    def check_state(self, st, out):
        # (c) every name handed out re-resolves, in its container, to the same URI
        for s, q in list(st.handed):
            text = str(q)
            r = st.cont[s].valid_qualified_name(text)
            if r is None or r.uri != q.uri:
                out.violation("c-printed-name-denotes-other-uri", "state",
                              {"scope": s, "printed": text, "uri": q.uri, "resolves_to": None if r is None else r.uri},
                              st.hist)
            else:
                out.outcomes["c-ok"] += 1
        if len(out.samples) < 2 and len(st.hist) >= 4:
            out.samples.append({"history": self.ops(st.hist)})

    def render(self, hist):
        ops = self._as_ops(hist)
        lines = ["from prov.model import ProvDocument", "from prov.identifier import Namespace, QualifiedName",
                 "d = ProvDocument(); c = {'D': d}"]
        for i in range(self.nb):
            lines.append("c['B%d'] = d.bundle(QualifiedName(Namespace('bn', %r), 'b%d'))" % (i + 1, BN, i + 1))
        for op in ops:
            if op[0] == "ns":
                lines.append("c[%r].add_namespace(%r, %r)" % (op[1], op[2], U[op[3]]))
            elif op[0] == "def":
                lines.append("c[%r].set_default_namespace(%r)" % (op[1], U[op[2]]))
            elif op[0] == "nso":
                lines.append("ns = Namespace(%r, %r); q = ns['x']; c[%r].add_namespace(ns); n = c[%r].valid_qualified_name(q); print(n, n.uri)"
                             % (op[2], U[op[3]], op[1], op[1]))
            elif op[0] == "rq":
                lines.append("n = c[%r].valid_qualified_name(QualifiedName(Namespace(%r, %r), %r)); print(n, n.uri)"
                             % (op[1], op[2], U[op[3]], op[4]))
            else:
                lines.append("n = c[%r].valid_qualified_name(%r); print(n, n and n.uri)" % (op[1], op[2]))
        return "\n".join(lines)

    def build_case(self, ops, out):
        st = NState(self.nb)
        for op in ops:
            pre = self.pre(st, op)
            try:
                self.apply(st, op)
            except NotEnabled as e:
                out.filters["case:" + e.args[0]] += 1
                return None
            st.hist = st.hist + (op,)
            self.check_transition(pre, op, st, out)
        return st


def _uri_name(text):
    for k in ("AB", "A", "B", "C"):
        if text.startswith(U[k]):
            return (k, text[len(U[k]):], ("u",))
    raise NotEnabled("unknown-uri")


def make_spec(tier, params):
    return C03(tier, params)


RUNS = {
    "quick": [("1scope-core", {"bundles": 0, "alphabet": "core"}, 12),
              ("1scope-wide", {"bundles": 0, "alphabet": "wide"}, 5),
              ("2scopes-wide", {"bundles": 1, "alphabet": "wide"}, 3),
              ("2scopes-full", {"bundles": 1, "alphabet": "full"}, 4),
              ("2scopes-core", {"bundles": 1, "alphabet": "core"}, 4)],
    "thorough": [("1scope-core", {"bundles": 0, "alphabet": "core"}, 12),
                 ("1scope-wide", {"bundles": 0, "alphabet": "wide"}, 5),
                 ("2scopes-wide", {"bundles": 1, "alphabet": "wide"}, 4),
                 ("1scope-full", {"bundles": 0, "alphabet": "full"}, 6),
                 ("2scopes-full", {"bundles": 1, "alphabet": "full"}, 4),
                 ("2scopes-core", {"bundles": 1, "alphabet": "core"}, 5),
                 ("2scopes-reduced", {"bundles": 1, "alphabet": "reduced"}, 14),
                 ("3scopes-core", {"bundles": 2, "alphabet": "core"}, 4)],
}


def main(tier, seed):
    from .. import runner
    parts = []
    for name, params, depth in RUNS[tier]:
        parts.append((name, runner.run_history(
            __name__, "C03", tier, seed, depth, params,
            rule="BFS over namespace-call interleavings on %d scope(s); distinct by canonical key (all manager "
                 "tables + set of names handed out); non-trivial = a resolution judged by (a) or the reference "
                 "resolver" % (params["bundles"] + 1))))
    return runner.merge_results("C03", parts)


def replay(item, tier, seed):
    from .. import runner
    import ast
    for name, params, depth in RUNS["thorough"] + RUNS["quick"]:
        if name == item.get("part"):
            break
    sp = make_spec(tier, params)
    out = explore.Out()
    ops = tuple(ast.literal_eval(o) for o in item.get("history", []))
    st = sp.build_case(ops, out)
    if st is not None:
        sp.check_state(st, out)
    vs, _ = runner.violations_json(sp, out)
    return {"property": "C03", "coverage": {"states": 1, "transitions": max(1, len(ops)),
            "traces_validated_against_impl": 1, "samples": [{"replayed": item.get("history")}]},
            "violations": vs, "wall_s": 0}
