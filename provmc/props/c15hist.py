"""history alphabet for C15: C14's graph alphabet plus a bundle, labels and a relation in the
bundle that references document-level names (collect-only spec: states are judged by c15)"""
from .. import machine, spec
from ..alphabets import S, Q
from . import c14


class C15Hist(c14.C14):
    prop = "C15"

    def __init__(self, tier, params=None):
        spec.Spec.__init__(self, tier, params)
        n = c14.n
        self.alphabet = c14.alphabet() + [
            ("bun", "B1", n("b1")),
            ("el", "B1", "entity", n("e1")), ("el", "B1", "activity", n("a1"), (None, None)),
            ("rel", "B1", "generation", None, (n("e1"), n("a1"), None)),
            ("rel", "B1", "usage", n("use"), (n("a1"), n("e2"), "t1")),
            ("at", ("P", "label", Q("prov")), "s_markup"),
        ]

    def check_state(self, st, out):
        pass


def make_spec(tier, params):
    return C15Hist(tier, params)
