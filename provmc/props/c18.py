"""C18 - identifier lookup and typed listing always agree with the record list.

Every state of a history alphabet that contains the record-adding calls (factories in every
spelling, new_record, add_record, update) is explored; on every state the lookup oracle is
evaluated on the document, its bundles and on every container *derived* from it through the
remaining record-adding paths (constructor records, unified, flattened, update/add_bundle
into a fresh document, JSON / XML deserialisation, and pairs of these).

oracle  get_record(x), for x in every spelling of every present identifier and of absent
        ones, is exactly the ordered scan of get_records() by identifier URI;
        get_records(cls) is exactly the isinstance scan; `records` is an independent copy.
"""
import itertools

from prov import model as pm
from prov.identifier import Identifier, Namespace, QualifiedName
from prov.model import ProvDocument

from .. import alphabets, explore, machine, observe, spec
from ..alphabets import S, Q, BARE, URI

CLASSES = [pm.ProvRecord, pm.ProvElement, pm.ProvRelation, pm.ProvEntity, pm.ProvActivity, pm.ProvAgent,
           pm.ProvGeneration, pm.ProvUsage, pm.ProvDerivation, pm.ProvSpecialization, pm.ProvMention,
           pm.ProvMembership, (pm.ProvEntity, pm.ProvAgent), (pm.ProvGeneration, pm.ProvElement)]


def split_uri(uri, ident):
    ns = ident.namespace.uri
    return ns, uri[len(ns):]


def all_identifiers(doc):
    ids = {}
    for _, c in containers(doc):
        for r in c.get_records():
            if r.identifier is not None:
                ids.setdefault(r.identifier.uri, r.identifier)
    return ids


def lookup_oracle(c, out, hist, where, elsewhere=None):
    recs = list(c.get_records())
    by_uri = {}
    for r in recs:
        if r.identifier is not None:
            by_uri.setdefault(r.identifier.uri, []).append(r)
    probes = []
    for uri, rs in by_uri.items():
        ident = rs[0].identifier
        probes.append((uri, "own-qname", ident))
        nsuri, local = split_uri(uri, ident)
        probes.append((uri, "foreign-prefix-qname", QualifiedName(Namespace("zz9", nsuri), local)))
        probes.append((uri, "printed-name", str(ident)))
        probes.append((uri, "full-uri", uri))
        probes.append((uri, "identifier-object", Identifier(uri)))
    # identifiers that exist in the enclosing document or a sibling bundle but not in this container
    for uri, ident in (elsewhere or {}).items():
        if uri not in by_uri:
            # (only as a QualifiedName: its printed form is relative to the scope that printed it)
            probes.append((uri, "present-elsewhere-qname", ident))
    for uri in ("http://a/absent", "http://nowhere/absent"):
        nsuri, local = uri.rsplit("/", 1)[0] + "/", uri.rsplit("/", 1)[1]
        probes.append((uri, "absent-qname", QualifiedName(Namespace("ab9", nsuri), local)))
    # spellings the container cannot resolve (or resolves to a name nothing carries): never a record, whatever else the
    # container holds - anonymous relations in particular
    for x in ("nosuchprefix9:e1", "_:b0", "barelocal9", "http://nowhere9.example/q", Identifier("http://nowhere9.example/q"), ""):
        probes.append(("unresolvable:%r" % (x,), "unresolvable-spelling", x))
    ok = True
    # a look-up with a QualifiedName may register that name's namespace in the container (and make a later
    # string look-up resolvable through it): ask the questions that cannot register anything first
    rank = {"unresolvable-spelling": -1, "printed-name": 0, "full-uri": 1, "identifier-object": 2, "own-qname": 3, "present-elsewhere-qname": 4,
            "foreign-prefix-qname": 5, "absent-qname": 6}
    probes.sort(key=lambda p: rank[p[1]])
    for uri, how, x in probes:
        want = by_uri.get(uri, [])
        try:
            got = c.get_record(x)
        except Exception as e:
            out.violation("get_record-raises", how, {"where": where, "x": repr(x), "error": repr(e)}, hist)
            ok = False
            continue
        got_l = [] if got is None else list(got)
        if len(got_l) != len(want) or any(a is not b for a, b in zip(got_l, want)):
            ok = False
            out.violation("get_record-differs-from-scan", how,
                          {"where": where, "x": repr(x), "uri": uri,
                           "got": [observe.robs(r) for r in got_l], "want": [observe.robs(r) for r in want]}, hist)
        else:
            out.outcomes["lookup-ok:" + how] += 1
    if c.get_record(None) is not None:
        out.violation("get_record-none", "none", {"where": where}, hist)
    recs = list(c.get_records())
    for cls in CLASSES:
        want = [r for r in recs if isinstance(r, cls)]
        got = list(c.get_records(cls))
        if len(got) != len(want) or any(a is not b for a, b in zip(got, want)):
            ok = False
            out.violation("get_records-differs-from-isinstance-scan", getattr(cls, "__name__", "tuple"),
                          {"where": where, "got": len(got), "want": len(want)}, hist)
    # a typed listing is a snapshot: records added after it was taken are not in it
    for cls in (pm.ProvEntity, pm.ProvRecord, (pm.ProvEntity, pm.ProvAgent)):
        want = [r for r in c.get_records() if isinstance(r, cls)]
        listing = c.get_records(cls)
        try:
            c.entity(QualifiedName(Namespace("zz8", "http://zz8.example/"), "late%d" % len(want)))
        except Exception as e:
            out.filters["late-record-not-addable:%s" % type(e).__name__] += 1
            break
        got = list(listing)
        if len(got) != len(want) or any(a is not b for a, b in zip(got, want)):
            ok = False
            out.violation("typed-listing-follows-later-additions", getattr(cls, "__name__", "tuple"),
                          {"where": where, "got": len(got), "want": len(want)}, hist)
            break
    before = [id(r) for r in c.get_records()]
    lst = c.records
    same_obj = lst is c.records
    lst.append(None)
    del lst[:]
    after = [id(r) for r in c.get_records()]
    if before != after or same_obj or [id(r) for r in c.records] != before:
        ok = False
        out.violation("records-not-independent-copy", "records", {"where": where}, hist)
    return ok


def containers(doc):
    yield "document", doc
    for b in doc.bundles:
        yield "bundle", b


DERIVATIONS = {
    "constructor": lambda d: _ctor(d),
    "unified": lambda d: d.unified(),
    "flattened": lambda d: d.flattened(),
    "update-into-fresh": lambda d: _update(d),
    "add_bundle-into-fresh": lambda d: _addb(d),
    "reload-json": lambda d: ProvDocument.deserialize(content=d.serialize(format="json"), format="json"),
    "reload-xml": lambda d: ProvDocument.deserialize(content=d.serialize(format="xml"), format="xml"),
}


def _ctor(d):
    return ProvDocument(records=d.get_records(), namespaces=d.namespaces)


def _update(d):
    n = ProvDocument()
    n.update(d)
    return n


def _addb(d):
    n = ProvDocument()
    for b in d.bundles:
        n.add_bundle(b.unified() if False else _copy_bundle(b))
    if not d.has_bundles():
        n.add_bundle(d, QualifiedName(Namespace("bn9", "http://bn9/"), "whole"))
    return n


def _copy_bundle(b):
    nb = pm.ProvBundle(identifier=b.identifier)
    nb.update(b)
    return nb


class C18(spec.Spec):
    prop = "C18"
    mutating_checks = True

    def __init__(self, tier, params=None):
        super().__init__(tier, params)
        ops = []
        ops += [("ns", "D", "ex", "A"), ("ns", "D", "ex", "B"), ("def", "D", "A")]
        ops += [("bun", "B1", ("A", "b1", S("ex"))), ("bun", "B1", ("C", "b1", Q("bn")))]
        ops += [("ns", "B1", "ex", "B"), ("def", "B1", "B")]
        for scope in ("D", "B1"):
            ops += [
                ("el", scope, "entity", ("A", "x", S("ex"))),
                ("el", scope, "entity", ("A", "x", BARE)),
                ("el", scope, "entity", ("A", "x", URI)),
                ("el", scope, "entity", ("A", "x", Q("ex"))),
                ("el", scope, "entity", ("B", "x", Q("ex"))),
                ("el", scope, "agent", ("A", "x", Q("q"))),
                ("el", scope, "entity", ("A", "http://a/x", Q("ex"))),  # self-repeating URI
                ("el", scope, "activity", ("A", "y", Q("")), ("t1", None)),
                ("rel", scope, "generation", ("A", "x", Q("ex")), (("A", "x", Q("ex")), ("A", "y", Q("ex")), None)),
                ("rel", scope, "generation", None, (("A", "x", Q("ex")), None, None)),
                ("rel", scope, "mention", ("A", "m", Q("ex")), (("A", "x", Q("ex")), ("A", "y", Q("ex")), ("A", "b1", Q("ex")))),
                ("rel", scope, "specialization", None, (("A", "x", Q("ex")), ("A", "y", Q("ex")))),
            ]
        # a default namespace nested under a prefixed one, and a name whose local part - relative to the nested
        # default - contains a colon (it can only be named through the outer prefix)
        ops += [("def", "D", "AB"), ("el", "D", "entity", ("A", "b/run:42", Q("ex"))),
                ("el", "B1", "entity", ("A", "b/run:42", Q("ex")))]
        ops += [("addrec", "D", "B1", 0), ("addrec", "B1", "D", 0), ("addrec", "B1", "D", 1), ("upd", "D", "B1")]
        ops += [("at", ("A", "k", Q("ex")), "s_a")]
        # look-ups in the middle of the history, also of names that (still) denote nothing there
        ops += [("getx", "D", ("A", "x", BARE)), ("getx", "D", ("A", "y", BARE)), ("getx", "B1", ("A", "y", BARE)),
                ("getx", "B1", ("B", "x", BARE)), ("getx", "D", ("A", "x", S("ex")))]
        self.alphabet = ops
        self.pairs = tier == "thorough"

    def check_state(self, st, out):
        doc = st.doc
        hist = st.hist
        nrec = len(doc.get_records()) + sum(len(b.get_records()) for b in doc.bundles)
        if nrec:
            out.nontrivial += 1
        # derived containers first (they read the source), then the source itself
        derived = []
        for name, f in DERIVATIONS.items():
            src = self.fresh(hist).doc
            try:
                d2 = f(src)
            except Exception as e:
                out.filters["derivation-raised:%s:%s" % (name, type(e).__name__)] += 1
                continue
            derived.append((name, d2))
            if self.pairs and nrec:
                for name2 in ("unified", "flattened", "reload-json", "constructor"):
                    try:
                        d3 = DERIVATIONS[name2](d2)
                    except Exception as e:
                        out.filters["derivation-raised:%s+%s:%s" % (name, name2, type(e).__name__)] += 1
                        continue
                    if d3 is not d2:
                        derived.append((name + "+" + name2, d3))
        for name, d2 in derived:
            ids = all_identifiers(d2)
            for kind, c in containers(d2):
                lookup_oracle(c, out, hist, "%s of %s" % (kind, name), ids)
                out.transitions += 1
        ids = all_identifiers(doc)
        for kind, c in containers(doc):
            lookup_oracle(c, out, hist, kind, ids)
        # the same questions after the container has been read by the transformations and exporters
        src = self.fresh(hist).doc
        from prov.graph import prov_to_graph
        for f in (lambda d: d.unified(), lambda d: [b.unified() for b in d.bundles], lambda d: d.flattened(),
                  prov_to_graph, lambda d: d.serialize(format="json"), lambda d: d.get_provn(),
                  lambda d: ProvDocument().update(d)):
            try:
                f(src)
            except Exception:
                pass
        ids = all_identifiers(src)
        for kind, c in containers(src):
            lookup_oracle(c, out, hist, kind + " after unified/flattened/graph/export", ids)
        if len(out.samples) < 2 and len(hist) >= 3:
            out.samples.append({"history": self.ops(hist)})



def make_spec(tier, params):
    return C18(tier, params)


def main(tier, seed):
    from .. import runner
    return runner.run_history(
        __name__, "C18", tier, seed, {"quick": 4, "thorough": 5}[tier],
        rule="BFS over record-adding histories (factories in every spelling, new_record, add_record, update) on a "
             "document and a bundle; on every state the lookup oracle runs on the document, its bundles and on "
             "every container derived by constructor/unified/flattened/update/add_bundle/JSON/XML reload "
             "(thorough: pairs of derivations); non-trivial = state holds at least one record")


def replay(item, tier, seed):
    from .. import runner
    return runner.replay_generic(__name__, "C18", item, tier)
