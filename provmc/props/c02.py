"""C02 - PROV-XML round trip preserves every XML-expressible document exactly, for both
values of force_types.  Same enumerations as C01 (history exploration + shape sweep) under
the expressibility filters X1..X4 of the quantifier."""
import re

from .. import machine, observe
from . import c01

XSD_QNAME = "http://www.w3.org/2001/XMLSchema#QName"
PROV_LABEL = machine.PROV_URI + "label"
NCNAME = re.compile(r"^[^\W\d][\w.\-]*$", re.UNICODE)  # (approximation of NCName: letters incl. non-ASCII, digits, _ . -)
BAD_CHARS = re.compile("[\x00-\x08\x0b\x0c\x0d\x0e-\x1f￾￿]")


def xml_filter(doc):
    """returns the name of the first quantifier clause that excludes the document, or None"""
    top, bundles = observe.dobs(doc)
    recs = list(top)
    for u, rs in bundles:
        recs.extend(rs)
    for t, i, attrs in recs:
        for a, v in attrs:
            local = re.split(r"[/#]", a)[-1]
            if not NCNAME.match(local):
                return "X1-attribute-local-not-NCName"
            if v[0] == "str" and BAD_CHARS.search(v[1]):
                return "X2-non-XML-character"
            if v[0] == "lit":
                if BAD_CHARS.search(v[1]):
                    return "X2-non-XML-character"
                if v[2] == XSD_QNAME:
                    return "X4-xsd-QName-literal"
            if a == PROV_LABEL and not (v[0] == "str" or (v[0] == "lit" and v[3] is not None)):
                return "X3-label-not-a-string"
    return None


class C02(c01.C01):
    prop = "C02"
    fmt = "xml"

    def __init__(self, tier, params=None):
        super().__init__(tier, params)
        self.option_sets = [{"force_types": False}, {"force_types": True}]
        self.sweep_option_sets = self.option_sets

    def judge(self, doc, out, hist, where, opts=None, extra=None):
        f = xml_filter(doc)
        if f is not None:
            out.filters[f] += 1
            return
        super().judge(doc, out, hist, where, opts, extra)


def make_spec(tier, params):
    return C02(tier, params)


def main(tier, seed):
    from .. import runner
    return runner.run_history_and_sweep(__name__, "C02", tier, seed,
                                        depth={"quick": 4, "thorough": 5}[tier], sweep="xml")


def replay(item, tier, seed):
    from .. import runner
    return runner.replay_generic(__name__, "C02", item, tier)
