"""C05 - records stay in normal form: formal attributes single-valued, typed, normalised.

Exhaustive product: record kind x entry path of creation x representation of the arguments,
then every sequence of <= n follow-up additions (formal attribute x representation x
{same value, same value other representation, different value, unparsable} x entry path
add_attributes(dict) / add_attributes(pair list) / set_time), executed on the real API in
lock-step with a reference record (dict attr -> single value).  After every call:
  invariant   each formal attribute <= 1 value; references are QualifiedName, times datetime
  transition  ProvException  <=>  a different value was offered for a filled formal attribute;
              same value => record unchanged; refused call => record unchanged
Literal-vs-native sweep: Literal(lexical, xsd:int|long|double|boolean|string|anyURI|dateTime)
stored through every attribute class and entry path equals the plain Python value.
"""
import datetime
import itertools

from prov.constants import PROV, XSD
from prov.identifier import Identifier, Namespace, QualifiedName
from prov.model import Literal, ProvDocument, ProvException, ProvRecord, PROV_REC_CLS

from .. import explore, machine, observe, spec
from ..machine import RELATIONS, TIME_ATTRS, PROV_URI, REQUIRED

A = "http://a/"
EX = Namespace("ex", A)
KINDS = {k: v for k, v in RELATIONS.items() if k not in machine.SUBTYPE_FACTORIES}
KINDS["activity"] = ("Activity", ("startTime", "endTime"))
KINDS["entity"] = ("Entity", ())
KINDS["agent"] = ("Agent", ())

T1 = datetime.datetime(2012, 3, 4, 5, 6, 7)
T2 = datetime.datetime(2013, 1, 1, 0, 0, 0, 250000)

REF_REPRS = ["qname", "string", "uri", "record", "identifier"]
# the reading of T1 at another UTC offset: another instant (and another value) that prints alike up to the offset
T1_OFFSET = T1.replace(tzinfo=datetime.timezone(datetime.timedelta(hours=5)))
TIME_REPRS = ["datetime", "iso", "literal"]


def time_for(choice):
    return {"same": T1, "different": T2, "same-reading-other-offset": T1_OFFSET}[choice]


def ref_value(doc, local, how, other_ns=False):
    if how == "qname":
        return QualifiedName(Namespace("ex", A), local)
    if how == "string":
        return "ex:" + local
    if how == "uri":
        return A + local
    if how == "identifier":
        return Identifier(A + local)
    if how == "record":
        # a record object living in another document
        d2 = ProvDocument()
        d2.add_namespace("ex", A)
        return d2.entity("ex:" + local)
    raise ValueError(how)


def time_value(t, how):
    if how == "literal":
        # the typed-literal spelling (what <prov:time xsi:type="xsd:dateTime"> loads as)
        return Literal(t.isoformat(), XSD["dateTime"])
    return t if how == "datetime" else t.isoformat()


def normal_form_problems(rec):
    probs = []
    by = {}
    for a, v in rec.attributes:
        by.setdefault(a.uri, []).append(v)
    for uri, vs in by.items():
        if not uri.startswith(PROV_URI):
            continue
        local = uri[len(PROV_URI):]
        if local in REF_LOCALS:
            if len(vs) > 1:
                probs.append("%s has %d values" % (local, len(vs)))
            for v in vs:
                if not isinstance(v, QualifiedName):
                    probs.append("%s holds %s" % (local, type(v).__name__))
        elif local in TIME_ATTRS:
            if len(vs) > 1:
                probs.append("%s has %d values" % (local, len(vs)))
            for v in vs:
                if not isinstance(v, datetime.datetime):
                    probs.append("%s holds %s" % (local, type(v).__name__))
    # the accessor views must agree with the attribute list
    fa = dict((a.uri, v) for a, v in rec.formal_attributes)
    for a in rec.FORMAL_ATTRIBUTES:
        vs = by.get(a.uri, [])
        if (fa.get(a.uri) is None) != (len(vs) == 0):
            probs.append("formal_attributes disagrees on %s" % a.localpart)
        elif vs and observe.vobs(fa[a.uri]) != observe.vobs(vs[0]):
            probs.append("formal_attributes disagrees on %s" % a.localpart)
        ga = rec.get_attribute(a)
        if sorted(map(repr, map(observe.vobs, ga))) != sorted(map(repr, map(observe.vobs, vs))):
            probs.append("get_attribute disagrees on %s" % a.localpart)
    if len(rec.args) != len(rec.FORMAL_ATTRIBUTES):
        probs.append("args length")
    return probs


REF_LOCALS = {"entity", "activity", "trigger", "informed", "informant", "starter", "ender", "agent", "plan", "delegate",
              "responsible", "generatedEntity", "usedEntity", "generation", "usage", "specificEntity", "generalEntity",
              "alternate1", "alternate2", "bundle", "influencee", "influencer", "collection"}


# element convenience methods: relation kind -> (class of the subject element, method name)
CONVENIENCE = {
    "generation": ("entity", "wasGeneratedBy"), "invalidation": ("entity", "wasInvalidatedBy"),
    "derivation": ("entity", "wasDerivedFrom"), "attribution": ("entity", "wasAttributedTo"),
    "alternate": ("entity", "alternateOf"), "specialization": ("entity", "specializationOf"),
    "membership": ("entity", "hadMember"), "usage": ("activity", "used"),
    "communication": ("activity", "wasInformedBy"), "start": ("activity", "wasStartedBy"),
    "end": ("activity", "wasEndedBy"), "association": ("activity", "wasAssociatedWith"),
    "delegation": ("agent", "actedOnBehalfOf"),
}


def create(kind, path, rrep, trep, mask):
    """returns (doc, record, model dict attr-uri -> value obs)"""
    doc = ProvDocument()
    doc.add_namespace("ex", A)
    tname, formals = KINDS[kind]
    model = {}
    vals = []
    for i, (fa, present) in enumerate(zip(formals, mask)):
        if not present:
            vals.append(None)
        elif fa in TIME_ATTRS:
            vals.append(time_value(T1, trep))
            model[PROV_URI + fa] = observe.vobs(T1)
        else:
            vals.append(ref_value(doc, "v%d" % i, rrep))
            model[PROV_URI + fa] = ("qn", A + "v%d" % i)
    ident = None if kind in ("specialization", "alternate", "mention", "membership") else "ex:r"
    if kind in ("entity", "agent", "activity"):
        ident = "ex:r"
    if path == "convenience":
        # the subject is an element of the document; its method creates the (anonymous) relation
        ecls, meth = CONVENIENCE[kind]
        subj = getattr(doc, ecls)("ex:v0")
        back = getattr(subj, meth)(*vals[1:])
        if back is not subj:
            raise AssertionError("convenience method did not return its element")
        rec = list(doc.get_records())[-1]
    elif path == "factory":
        if kind in ("entity", "agent"):
            rec = getattr(doc, kind)(ident)
        elif kind == "activity":
            rec = doc.activity(ident, *vals)
        elif ident is None:
            rec = getattr(doc, kind)(*vals)
        else:
            rec = getattr(doc, kind)(*vals, identifier=ident)
    elif path == "new_record-dict":
        rec = doc.new_record(PROV[tname], ident, {PROV[fa]: v for fa, v in zip(formals, vals)})
    elif path == "new_record-list":
        rec = doc.new_record(PROV[tname], ident, [(PROV[fa], v) for fa, v in zip(formals, vals)])
    elif path == "new_record-strkeys":
        rec = doc.new_record(PROV[tname], ident, {"prov:" + fa: v for fa, v in zip(formals, vals) if v is not None})
    else:
        raise ValueError(path)
    return doc, rec, model


def followups(kind):
    """all single follow-up additions for a record kind"""
    tname, formals = KINDS[kind]
    out = []
    for i, fa in enumerate(formals):
        if fa in TIME_ATTRS:
            for choice in ("same", "different", "same-reading-other-offset", "unparsable"):
                for rep in TIME_REPRS:
                    if choice == "unparsable" and rep == "datetime":
                        continue
                    # (set_time documents its arguments as datetime or string: no typed literal there)
                    for path in ("attrs-dict", "attrs-list") + (("set_time",) if kind == "activity" and rep != "literal" else ()) + (
                            ("attrs-iter",) if rep == "datetime" else ()):
                        out.append((i, fa, choice, rep, path))
                    if choice != "unparsable":
                        out.append((i, fa, choice, rep, "one-call-two-values:dict-then-list"))
        else:
            for choice in ("same", "different", "unparsable"):
                for rep in REF_REPRS:
                    if choice == "unparsable" and rep != "string":
                        continue
                    # (attrs-iter: the pairs arrive as a one-shot iterator, "an iterable of tuples")
                    for path in ("attrs-dict", "attrs-list") + (("attrs-iter",) if rep == "qname" else ()):
                        out.append((i, fa, choice, rep, path))
                    if choice != "unparsable":
                        out.append((i, fa, choice, rep, "one-call-two-values:dict-then-list"))
                    if choice != "unparsable" and rep == "qname" and fa != "collection":
                        # the same call also names prov:collection (the marker of the membership compatibility path)
                        out.append((i, fa, choice, rep, "attrs-list+collection"))
    return out


def apply_followup(doc, rec, model, fu):
    """returns (expected 'ok'|'refuse'|'invalid', thunk, new model)"""
    i, fa, choice, rep, path = fu
    if path.startswith("one-call-two-values"):
        # both values arrive in the same add_attributes invocation
        uri = PROV_URI + fa
        if fa in TIME_ATTRS:
            v1, v2 = time_value(T1, rep), time_value(time_for(choice), "datetime")
            o1, o2 = observe.vobs(T1), observe.vobs(time_for(choice))
        else:
            l2 = ("w%d" if choice == "different" else "v%d") % i
            v1, v2 = ref_value(doc, "v%d" % i, rep), ref_value(doc, l2, "qname")
            o1, o2 = ("qn", A + "v%d" % i), ("qn", A + l2)
        new_model = dict(model)
        if uri in model and model[uri] != o1:
            expected = "refuse"
        elif o1 != o2:
            expected = "refuse-partial"  # the first value may have been stored before the refusal
            new_model[uri] = o1
        else:
            expected = "ok"
            new_model[uri] = o1
        pairs = [(PROV[fa], v1), ("prov:" + fa, v2)]
        if path.endswith("dict-then-list"):
            thunk = lambda: rec.add_attributes(pairs)
        else:
            thunk = lambda: rec.add_attributes(tuple(reversed(pairs))) if choice != "different" else rec.add_attributes(pairs)
        return expected, thunk, new_model
    if path == "attrs-list+collection":
        uri = PROV_URI + fa
        curi, cval = PROV_URI + "collection", ("qn", A + "v0")
        local = "v%d" % i if choice == "same" else "w%d" % i
        val, vo = ref_value(doc, local, rep), ("qn", A + local)
        with_coll = dict(model)
        if with_coll.setdefault(curi, cval) != cval:
            return "skip", (lambda: None), model
        if uri not in with_coll:
            expected, new_model = "ok", dict(with_coll, **{uri: vo})
        elif with_coll[uri] == vo:
            expected, new_model = "ok", with_coll
        else:
            # the collection attribute may have been stored before the refusal
            expected, new_model = "refuse-partial", with_coll
        return expected, (lambda: rec.add_attributes([(PROV["collection"], "ex:v0"), (PROV[fa], val)])), new_model
    uri = PROV_URI + fa
    if fa in TIME_ATTRS:
        t = None if choice == "unparsable" else time_for(choice)
        val = time_value(t, rep) if t is not None else (
            Literal("not a date", XSD["dateTime"]) if rep == "literal" else "not a date")
        vo = None if t is None else observe.vobs(t)
    else:
        local = "v%d" % i if choice == "same" else "w%d" % i
        if choice == "unparsable":
            val, vo = "nosuchprefix:zzz", None
        else:
            val, vo = ref_value(doc, local, rep), ("qn", A + local)
    new_model = dict(model)
    if path == "set_time":
        # documented setter: replaces; only normal form is demanded of it
        kw = {"startTime" if fa == "startTime" else "endTime": val}
        expected = "setter"
        if vo is not None:
            new_model[uri] = vo
        thunk = lambda: rec.set_time(**kw)
    else:
        if vo is None:
            expected = "invalid"
        elif uri not in model:
            expected = "ok"
            new_model[uri] = vo
        elif model[uri] == vo:
            expected = "ok"
        else:
            expected = "refuse"
        if path == "attrs-dict":
            thunk = lambda: rec.add_attributes({PROV[fa]: val})
        elif path == "attrs-iter":
            thunk = lambda: rec.add_attributes(iter([(PROV[fa], val)]))
        else:
            thunk = lambda: rec.add_attributes([("prov:" + fa, val)])
    return expected, thunk, new_model


def model_obs(rec_type_uri, ident_uri, model, extra=()):
    return (rec_type_uri, ident_uri, tuple(sorted(list(model.items()) + list(extra), key=repr)))


class C05(spec.Spec):
    prop = "C05"

    def __init__(self, tier, params=None):
        super().__init__(tier, params)
        self.alphabet = []
        self.nfollow = 2 if tier == "thorough" else 1

    def record_case(self, item, out):
        kind, path, rrep, trep, mask = item
        fus = followups(kind)
        seqs = [()] + [(f,) for f in fus]
        if self.nfollow >= 2:
            # pairs: every follow-up, then every follow-up in a canonical representation (the second
            # call's representation is explored by the single follow-ups; the full square is 4x the cost)
            canon = [g for g in fus if g[3] in ("qname", "string", "datetime", "iso")]
            seqs += [(f, g) for f in fus for g in canon]
        for seq in seqs:
            self.run(item, seq, out)

    def run(self, item, seq, out):
        kind, path, rrep, trep, mask = item
        hh = ("c05", list(map(str, item)), [list(map(str, f)) for f in seq])
        out.evaluations += 1
        try:
            doc, rec, model = create(kind, path, rrep, trep, mask)
        except Exception as e:
            out.violation("creation-raises", "%s:%s:%s" % (kind, path, type(e).__name__),
                          {"error": repr(e)}, hh)
            return
        out.transitions += 1
        tname = KINDS[kind][0]
        ident = None if rec.identifier is None else rec.identifier.uri
        want = model_obs(PROV_URI + tname, ident, model)
        got = observe.robs(rec)
        probs = normal_form_problems(rec)
        if probs:
            out.violation("not-normal-form", "create:%s:%s" % (path, probs[0]), {"problems": probs, "record": repr(got)}, hh)
            return
        if got != want:
            out.violation("creation-differs-from-model", "%s:%s" % (kind, path), {"got": repr(got), "want": repr(want)}, hh)
            return
        for fu in seq:
            expected, thunk, new_model = apply_followup(doc, rec, model, fu)
            if expected == "skip":
                continue
            before = observe.robs(rec)
            raised = None
            try:
                thunk()
            except ProvException as e:
                raised = e
            except Exception as e:
                if expected in ("invalid", "setter"):
                    raised = e  # unparsable input: the statement does not say which error
                else:
                    out.violation("unexpected-exception", "%s:%s:%s" % (fu[1], fu[4], type(e).__name__),
                                  {"error": repr(e)}, hh)
                    return
            out.transitions += 1
            after = observe.robs(rec)
            probs = normal_form_problems(rec)
            if probs:
                out.violation("not-normal-form", "%s:%s:%s" % (fu[4], fu[3], probs[0]),
                              {"problems": probs, "record": repr(after)}, hh)
                return
            if expected == "ok":
                if raised is not None:
                    out.violation("spurious-refusal", "%s:%s:%s" % (fu[2], fu[3], fu[4]), {"error": str(raised)}, hh)
                    return
                model = new_model
                if after != model_obs(PROV_URI + tname, ident, model):
                    out.violation("record-differs-from-model", "%s:%s:%s" % (fu[2], fu[3], fu[4]),
                                  {"got": repr(after), "want": repr(model_obs(PROV_URI + tname, ident, model))}, hh)
                    return
                out.outcomes["accepted-%s" % fu[2]] += 1
            elif expected == "refuse-partial":
                if raised is None:
                    out.violation("second-value-not-refused", "one-call:%s" % fu[3], {"record": repr(after)}, hh)
                    return
                # the record holds either what it held before or additionally the first of the two values
                if after != before and after != model_obs(PROV_URI + tname, ident, new_model):
                    out.violation("refusal-changed-record", "one-call:%s" % fu[3], {"after": repr(after)}, hh)
                    return
                if after != before:
                    model = new_model
                out.outcomes["refused-second-of-one-call"] += 1
            elif expected == "refuse":
                if raised is None:
                    out.violation("second-value-not-refused", "%s:%s" % (fu[3], fu[4]), {"record": repr(after)}, hh)
                    return
                if after != before:
                    out.violation("refusal-changed-record", "%s:%s" % (fu[3], fu[4]), {}, hh)
                    return
                out.outcomes["refused"] += 1
            elif expected == "invalid":
                if after != before:
                    out.violation("invalid-value-changed-record", "%s:%s" % (fu[3], fu[4]),
                                  {"before": repr(before), "after": repr(after)}, hh)
                    return
                out.outcomes["invalid-%s" % ("raised" if raised else "ignored")] += 1
            else:  # setter
                if raised is None and fu[2] != "unparsable":
                    model = new_model
                    if after != model_obs(PROV_URI + tname, ident, model):
                        out.violation("record-differs-from-model", "set_time:%s" % fu[3],
                                      {"got": repr(after), "want": repr(model_obs(PROV_URI + tname, ident, model))}, hh)
                        return
                elif fu[2] == "unparsable":
                    model = dict((k, v) for k, v in zip([a for a, _ in after[2]], [v for _, v in after[2]]))
                out.outcomes["set_time"] += 1
        out.nontrivial += 1
        out.conform += 1
        if len(out.samples) < 1 and seq:
            out.samples.append({"create": list(map(str, item)), "then": [list(map(str, f)) for f in seq]})

    # -- a formal attribute given twice at creation --------------------------------------
    def creation_conflict_case(self, item, out):
        kind, fidx, same, via = item
        hh = ("c05-conflict", kind, fidx, same, via)
        out.evaluations += 1
        tname, formals = KINDS[kind]
        fa = formals[fidx]
        if kind == "membership" and fa == "entity" and not same:
            out.filters["not-claimed:several-prov:entity-values-in-one-membership-call"] += 1
            return
        doc = ProvDocument()
        doc.add_namespace("ex", A)
        vals = []
        for i, f in enumerate(formals):
            vals.append(T1 if f in TIME_ATTRS else ref_value(doc, "v%d" % i, "qname"))
        if fa in TIME_ATTRS:
            other = T1 if same else T2
        else:
            other = ref_value(doc, ("v%d" if same else "w%d") % fidx, "string")
        ident = "ex:r" if kind in ("entity", "agent", "activity") or kind not in ("specialization", "alternate", "mention", "membership") else None
        try:
            if via == "factory-other_attributes" and kind not in ("specialization", "alternate", "mention", "membership"):
                if kind == "activity":
                    rec = doc.activity(ident, *vals, other_attributes=[(PROV[fa], other)])
                else:
                    rec = getattr(doc, kind)(*vals, identifier=ident, other_attributes=[(PROV[fa], other)])
            else:
                rec = doc.new_record(PROV[tname], ident, [(PROV[f], v) for f, v in zip(formals, vals)] + [("prov:" + fa, other)])
            raised = None
        except ProvException as e:
            raised = e
        except Exception as e:
            out.violation("unexpected-exception", "creation:%s" % type(e).__name__, {"error": repr(e)}, hh)
            return
        out.transitions += 1
        if same:
            if raised is not None:
                out.violation("spurious-refusal", "creation-same-value-twice", {"error": str(raised)}, hh)
                return
            probs = normal_form_problems(rec)
            if probs:
                out.violation("not-normal-form", "creation-same-value-twice:%s" % probs[0], {"problems": probs}, hh)
                return
        else:
            if raised is None:
                out.violation("second-value-not-refused", "creation:%s" % via,
                              {"record": repr(observe.robs(rec)), "problems": normal_form_problems(rec)}, hh)
                return
        out.outcomes["creation-twice-%s" % ("same" if same else "refused")] += 1
        out.nontrivial += 1
        out.conform += 1

    # -- derivation subtype factories and shared argument lists ---------------------------
    def subtype_case(self, item, out):
        """revision / quotation / primary_source x form of other_attributes x its content: the record holds the
        subtype, every value of a repeated name and the caller's own prov:type values"""
        fac, form, content = item
        hh = ("c05-subtype", fac, form, content)
        out.evaluations += 1
        doc = ProvDocument()
        doc.add_namespace("ex", A)
        pairs = {"repeated-name": [(EX["k"], 1), (EX["k"], 2)],
                 "own-type-qname-key": [(PROV["type"], EX["T"]), (EX["k"], 1)],
                 "own-type-string-key": [("prov:type", EX["T"]), ("ex:k", 1), ("ex:k", "one")],
                 "falsy": [(EX["k"], 0), (EX["k2"], ""), (EX["k3"], False)]}[content]
        if form == "dict" and len({n for n, _ in pairs}) < len(pairs):
            return
        other = dict(pairs) if form == "dict" else (list(pairs) if form == "list" else tuple(pairs))
        try:
            rec = getattr(doc, fac)("ex:e2", "ex:e1", identifier="ex:r", other_attributes=other)
        except Exception as e:
            out.violation("creation-raises", "%s:%s" % (fac, type(e).__name__), {"error": repr(e)}, hh)
            return
        out.transitions += 1
        sub = {"revision": "Revision", "quotation": "Quotation", "primary_source": "PrimarySource"}[fac]
        want = {(PROV_URI + "generatedEntity", ("qn", A + "e2")), (PROV_URI + "usedEntity", ("qn", A + "e1")),
                (PROV_URI + "type", ("qn", PROV_URI + sub))}
        for n, v in pairs:
            nq = doc.valid_qualified_name(n)
            want.add((nq.uri, observe.vobs(v)))
        got = set(observe.robs(rec)[2])
        if got != want:
            out.violation("creation-differs-from-model", "%s:%s:%s" % (fac, form, content),
                          {"missing": repr(sorted(want - got, key=repr)), "extra": repr(sorted(got - want, key=repr))}, hh)
            return
        out.outcomes["subtype-factory-ok"] += 1
        out.nontrivial += 1
        out.conform += 1

    def shared_list_case(self, item, out):
        """the caller's attribute list is used for two new_record calls: neither record may see what was only
        given to the other, and the list itself must come back unchanged"""
        first_kind, with_other = item
        hh = ("c05-shared-list", first_kind, with_other)
        out.evaluations += 1
        doc = ProvDocument()
        doc.add_namespace("ex", A)
        shared = [(PROV["entity"], "ex:e1"), (PROV["activity"], "ex:a1")]
        before = list(shared)
        other1 = [(PROV["time"], T1), (EX["tag"], "first")] if with_other else None
        try:
            r1 = doc.new_record(PROV[first_kind], "ex:r1", shared, other1)
            r2 = doc.new_record(PROV["Generation"], "ex:r2", shared, [(EX["tag"], "second")])
        except ProvException as e:
            out.violation("spurious-refusal", "shared-argument-list", {"error": str(e)}, hh)
            return
        except Exception as e:
            out.violation("unexpected-exception", "shared-argument-list:%s" % type(e).__name__, {"error": repr(e)}, hh)
            return
        out.transitions += 2
        if shared != before:
            out.violation("argument-list-modified", first_kind, {"list": repr(shared)}, hh)
            return
        got2 = set(observe.robs(r2)[2])
        want2 = {(PROV_URI + "entity", ("qn", A + "e1")), (PROV_URI + "activity", ("qn", A + "a1")), (A + "tag", ("str", "second"))}
        if got2 != want2:
            out.violation("record-holds-values-given-to-another-record", first_kind,
                          {"extra": repr(sorted(got2 - want2, key=repr)), "missing": repr(sorted(want2 - got2, key=repr))}, hh)
            return
        out.outcomes["shared-list-ok"] += 1
        out.nontrivial += 1
        out.conform += 1

    # -- literal vs native ------------------------------------------------------------
    def literal_case(self, item, out):
        (dt_local, lexical, native_src), attr, path, dtprefix = item
        hh = ("c05-literal", dt_local, lexical, native_src, attr, path, dtprefix)
        out.evaluations += 1
        native = eval(native_src, {"datetime": datetime, "Identifier": Identifier})
        dtq = QualifiedName(Namespace(dtprefix, XSD.uri), dt_local)
        # call history: typed literals whose values compare equal to other kinds' values were parsed before
        dd = ProvDocument()
        dd.entity(EX["decoy"], [(EX["k"], Literal("true", XSD["boolean"])), (EX["k"], Literal("0", XSD["int"])),
                                (EX["k"], Literal("2.0", XSD["double"])), (EX["k"], Literal("-5.0", XSD["double"])),
                                (EX["k"], Literal("7", XSD["string"])), (EX["k"], Literal("1000", XSD["int"]))])

        def build(value):
            d = ProvDocument()
            d.add_namespace("ex", A)
            name = attr
            if path == "factory":
                e = d.entity("ex:e", {name: value})
            elif path == "factory-list":
                e = d.entity("ex:e", [(name, value)])
            elif path == "add_attributes":
                e = d.entity("ex:e")
                e.add_attributes({name: value})
            elif path == "relation":
                e = d.generation("ex:e", "ex:a", None, None, {name: value})
            elif path == "new_record":
                e = d.new_record(PROV["Entity"], "ex:e", None, [(name, value)])
            return e
        try:
            r1 = build(Literal(lexical, dtq))
            r2 = build(native)
        except Exception as e:
            out.violation("literal-path-raises", "%s:%s" % (dt_local, type(e).__name__), {"error": repr(e)}, hh)
            return
        out.transitions += 2
        o1, o2 = observe.robs(r1), observe.robs(r2)
        if o1 != o2:
            out.violation("literal-stored-differently-from-native", "%s:%s" % (dt_local, attr.split(":")[0]),
                          {"literal_path": repr(o1), "native_path": repr(o2)}, hh)
            return
        # adding the other spelling afterwards must not create a second value
        r1.add_attributes({attr: native})
        r2.add_attributes([(attr, Literal(lexical, dtq))])
        if observe.robs(r1) != o1 or observe.robs(r2) != o2:
            out.violation("literal-and-native-not-identified", dt_local, {"after": repr(observe.robs(r1))}, hh)
            return
        out.outcomes["literal-ok:" + dt_local] += 1
        out.nontrivial += 1
        out.conform += 1

    def ops(self, hist):
        return list(hist)

    def render(self, hist):
        return "# %r" % (hist,)


LITERALS = [
    ("int", "2", "2"), ("int", "-1", "-1"), ("int", "007", "7"), ("int", "0", "0"),
    ("long", "2147483648", "2147483648"), ("long", "-5", "-5"),
    ("double", "2.5", "2.5"), ("double", "1e3", "1000.0"), ("double", "-0.0", "-0.0"), ("double", "3", "3.0"),
    ("double", ".5", "0.5"), ("double", "5.", "5.0"), ("double", "-.5E1", "-5.0"), ("double", "+5.e3", "5000.0"),
    ("double", "1.5E-2", "0.015"), ("int", "+5", "5"), ("long", "-0", "0"),
    ("boolean", "true", "True"), ("boolean", "false", "False"), ("boolean", "1", "True"), ("boolean", "0", "False"),
    ("string", "a", "'a'"), ("string", "", "''"), ("string", "1", "'1'"), ("string", " pad ", "' pad '"),
    ("anyURI", "http://c/res", "Identifier('http://c/res')"),
    ("dateTime", "2012-03-04T05:06:07", "datetime.datetime(2012, 3, 4, 5, 6, 7)"),
    ("dateTime", "2012-03-04T05:06:07.250000", "datetime.datetime(2012, 3, 4, 5, 6, 7, 250000)"),
    ("dateTime", "2012-03-04T05:06:07+00:00",
     "datetime.datetime(2012, 3, 4, 5, 6, 7, tzinfo=datetime.timezone.utc)"),
]
ATTRS = ["ex:k", "prov:type", "prov:label", "prov:value", "prov:location", "prov:role"]
LPATHS = ["factory", "factory-list", "add_attributes", "relation", "new_record"]


def make_spec(tier, params):
    return C05(tier, params)


def record_items(tier):
    items = []
    for kind, (tname, formals) in KINDS.items():
        req = REQUIRED.get(kind, 0)
        masks = []
        opt = len(formals) - req
        for m in itertools.product((False, True), repeat=opt):
            masks.append((True,) * req + m)
        if kind == "activity":
            masks = list(itertools.product((False, True), repeat=2))
        for path in ("factory", "new_record-dict", "new_record-list", "new_record-strkeys"):
            for rrep in REF_REPRS:
                for trep in TIME_REPRS:
                    if trep != "datetime" and not any(f in TIME_ATTRS for f in formals):
                        continue
                    if rrep != "qname" and not any(f not in TIME_ATTRS for f in formals):
                        continue
                    for mask in masks:
                        items.append((kind, path, rrep, trep, mask))
                    if req == 2 and path != "factory":
                        # new_record can leave out the second formal argument too (it is supplied by a follow-up)
                        items.append((kind, path, rrep, trep, (True, False) + (False,) * opt))
        if kind in CONVENIENCE:
            for rrep in REF_REPRS:
                for trep in TIME_REPRS:
                    if trep != "datetime" and not any(f in TIME_ATTRS for f in formals):
                        continue
                    for mask in masks:
                        if mask[0]:
                            items.append((kind, "convenience", rrep, trep, mask))
    return items


def main(tier, seed):
    import time
    from .. import runner
    t0 = time.time()
    sp = make_spec(tier, {})
    items = record_items(tier)
    out = explore.pmap(__name__, tier, {}, "record_case", items, chunk=4)
    out.evaluations -= len(items)
    conf_items = [(k, i, same, via) for k, (t, fs) in KINDS.items() for i in range(len(fs)) for same in (True, False)
                  for via in ("factory-other_attributes", "new_record-list")]
    out3 = explore.pmap(__name__, tier, {}, "creation_conflict_case", conf_items, chunk=20)
    out3.evaluations -= len(conf_items)
    out.merge(out3)
    sub_items = [(f, form, c) for f in ("revision", "quotation", "primary_source") for form in ("dict", "list", "tuple")
                 for c in ("repeated-name", "own-type-qname-key", "own-type-string-key", "falsy")]
    out4 = explore.pmap(__name__, tier, {}, "subtype_case", sub_items, chunk=6)
    out4.evaluations -= len(sub_items)
    out.merge(out4)
    sh_items = [(k, w) for k in ("Generation", "Invalidation", "Usage") for w in (True, False)]
    out5 = explore.pmap(__name__, tier, {}, "shared_list_case", sh_items, chunk=2)
    out5.evaluations -= len(sh_items)
    out.merge(out5)
    lit_items = [(l, a, p, pre) for l in LITERALS for a in ATTRS for p in LPATHS for pre in ("xsd", "xs")]
    out2 = explore.pmap(__name__, tier, {}, "literal_case", lit_items, chunk=40)
    out2.evaluations -= len(lit_items)
    out.merge(out2)
    vs, nsig = runner.violations_json(sp, out)
    cov = {
        "states": out.nontrivial,
        "transitions": out.transitions,
        "traces_validated_against_impl": out.conform,
        "evaluations": out.evaluations,
        "distinct_nontrivial": out.nontrivial,
        "rule": ("full product: 18 record kinds x 5 creation paths (typed factory, element convenience method, new_record with dict / pair list / string keys) x argument representations x optional-argument "
                 "masks, each followed by every sequence of <= %d follow-up additions (the second of a pair in a canonical representation; formal attribute x {same, "
                 "different, unparsable} x representation x add_attributes dict/list/set_time); plus %d literal-vs-"
                 "native cases; a case is distinct by its call sequence; non-trivial = ran to the end in lock-step "
                 "with the reference record" % (sp.nfollow, len(lit_items))),
        "samples": out.samples[:3],
        "exhaustive": True,
        "creation_cases": len(items),
        "literal_cases": len(lit_items),
        "filters": dict(out.filters),
        "outcomes": dict(out.outcomes),
    }
    return {"property": "C05", "coverage": cov, "violations": vs, "signatures": nsig,
            "wall_s": round(time.time() - t0, 2)}


def replay(item, tier, seed):
    from .. import runner
    import ast
    sp = make_spec(tier, {})
    out = explore.Out()
    h = item.get("history", [])
    if h and h[0] == "c05":
        it = h[1]
        case = (it[0], it[1], it[2], it[3], ast.literal_eval(it[4]))
        seq = tuple((int(f[0]), f[1], f[2], f[3], f[4]) for f in h[2])
        sp.run(case, seq, out)
    elif h and h[0] == "c05-literal":
        sp.literal_case(((h[1], h[2], h[3]), h[4], h[5], h[6]), out)
    elif h and h[0] == "c05-conflict":
        sp.creation_conflict_case((h[1], h[2], h[3], h[4]), out)
    elif h and h[0] == "c05-subtype":
        sp.subtype_case((h[1], h[2], h[3]), out)
    elif h and h[0] == "c05-shared-list":
        sp.shared_list_case((h[1], h[2]), out)
    vs, _ = runner.violations_json(sp, out)
    return {"property": "C05", "coverage": {"states": 1, "transitions": 1, "traces_validated_against_impl": 1,
            "samples": [{"replayed": h}]}, "violations": vs, "wall_s": 0}
