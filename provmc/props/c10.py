"""C10 - emitted PROV-JSON and PROV-XML mean the same to an independent reader.

Exactly the enumerations of C01 (JSON) and C02 (XML): history exploration + shape sweep, all
writer options.  The emitted text is read by readers written from the specifications
(provmc/indep, sharing no code with the library): their structural rules must hold on the
text and the recovered document must equal the strict observation of the original.
"""
from .. import observe
from ..indep import json_reader, xml_reader
from . import c01, c02


class C10(c01.C01):
    prop = "C10"

    def __init__(self, tier, params=None):
        super().__init__(tier, params)
        self.option_sets = [("json", {}), ("xml", {"force_types": False}), ("xml", {"force_types": True})]
        self.sweep_option_sets = [("json", {}), ("json", {"indent": 2, "sort_keys": True}),
                                  ("json", {"ensure_ascii": False}),
                                  ("xml", {"force_types": False}), ("xml", {"force_types": True})]

    def judge(self, doc, out, hist, where, opts=None, extra=None):
        """emit and read independently; then edit the document in place (C01's edit: a value added under an existing
        record, `set_time` on an activity, a record added) and emit again - the second texts are those of the edited document"""
        before = sum(v[0] for v in out.viol.values())
        self.judge_once(doc, out, hist, where, opts, extra)
        if sum(v[0] for v in out.viol.values()) != before:
            return  # already reported as it stands
        try:
            c01.edit_in_place(doc)
        except Exception:
            out.outcomes["edit-in-place-refused"] += 1
            return
        self.judge_once(doc, out, hist, where + "+after-in-place-edit", opts, extra, suffix="-after-in-place-edit")

    def judge_once(self, doc, out, hist, where, opts=None, extra=None, suffix=""):
        want = observe.dobs(doc)
        observe.touch(doc)
        xf = c02.xml_filter(doc)
        for fmt, o in (self.option_sets if opts is None else opts):
            if fmt == "xml" and xf is not None:
                out.filters[xf] += 1
                continue
            observe.export_decoy(fmt, **o)
            try:
                text = doc.serialize(format=fmt, **o)
            except Exception as e:
                out.violation("%s-writer-raises" % fmt, type(e).__name__, {"error": repr(e), "where": where}, hist, extra)
                continue
            got, problems = (json_reader.read if fmt == "json" else xml_reader.read)(text)
            if problems:
                out.violation("%s-structural-rule%s" % (fmt, suffix), _kind(problems[0]) + observe.input_class(doc),
                              {"problems": problems[:5], "where": where, "options": o, "text": text[:2500]}, hist, extra)
                continue
            if got == want:
                out.outcomes["%s-agree%s" % (fmt, suffix)] += 1
            else:
                out.violation("%s-independent-reader-differs%s" % (fmt, suffix), ",".join(observe.classify_diff(want, got)) + observe.input_class(doc),
                              {"diff": observe.diff_obs(want, got), "where": where, "options": o, "text": text[:2500]},
                              hist, extra)


def _kind(problem):
    import re
    s = re.sub(r"'[^']*'|\"[^\"]*\"|\[[^\]]*\]|<[^>]*>", "_", problem)
    s = re.sub(r"(bundle|identifier|attribute name|record|prefix of|unprefixed) \S+", r"\1 _", s)
    return s[:80]


def make_spec(tier, params):
    return C10(tier, params)


def main(tier, seed):
    from .. import runner
    return runner.run_history_and_sweep(__name__, "C10", tier, seed,
                                        depth={"quick": 4, "thorough": 5}[tier], sweep="c10")


def replay(item, tier, seed):
    from .. import runner
    return runner.replay_generic(__name__, "C10", item, tier)
