"""C13 - exporting never mutates the document and is repeatable.

Every state of the document-history alphabet x every ordered sequence of <= n exporter calls
(JSON x options, XML x force_types, RDF, PROV-N, DOT x options, graph, ==, hash, unified,
flattened).  After every call the document's ordered strict content and its namespace
observation must equal what they were; the same export called twice, and called on a twin
document built by the same calls, must give identical text (RDF: identical under deterministic
blank-node labels, else isomorphic).
"""
import itertools

from prov.model import ProvDocument

from .. import alphabets, explore, machine, observe, spec


def _rdf(doc):
    import rdflib.term
    _reset_bnodes()
    return doc.serialize(format="rdf")


_counter = [0]


def _reset_bnodes():
    import rdflib.term

    class _U(object):
        def __init__(self, n):
            self.hex = "%032x" % n

    def fake_uuid4():
        _counter[0] += 1
        return _U(_counter[0])

    _counter[0] = 0
    rdflib.term.uuid4 = fake_uuid4
    if hasattr(rdflib.term, "_unique_id"):
        pass


def _dot(doc, **kw):
    from prov.dot import prov_to_dot
    return prov_to_dot(doc, **kw).to_string()


def _graph(doc):
    from prov.graph import prov_to_graph
    g = prov_to_graph(doc)
    return (sorted(observe.robs(n) for n in g.nodes()),
            sorted((observe.robs(a), observe.robs(b), observe.robs(d["relation"])) for a, b, d in g.edges(data=True)))


def _hash(doc):
    s = set()
    for r in doc.get_records():
        hash(r)
        s.add(r)
    for b in doc.bundles:
        for r in b.get_records():
            hash(r)
            s.add(r)
    return len(s)


def _foreign_twin(container, tag):
    """a container with as many (distinct) records as `container`, all in namespaces it does not know"""
    from prov.identifier import Namespace, QualifiedName
    from prov.model import ProvBundle
    other = ProvDocument() if container.is_document() else ProvBundle(identifier=container.identifier)
    n = len(set(container.get_records()))
    ns, dflt = Namespace("zz7" + tag, "http://zz7.example/%s/" % tag), Namespace("", "http://zz7.example/default/")
    for i in range(n):
        other.entity(QualifiedName(ns if i % 2 == 0 else dflt, "f%d" % i))
    return other


def _eq(doc):
    res = [doc == doc, doc != doc, all(b == b for b in doc.bundles)]
    # compared as the left and as the right operand with different content of the same size (documents with the same
    # bundle identifiers, and every bundle on its own)
    other = _foreign_twin(doc, "d")
    for b in doc.bundles:
        other.add_bundle(_foreign_twin(b, "b"))
    res += [doc == other, other == doc, doc != other, other != doc]
    for b in doc.bundles:
        ob = _foreign_twin(b, "b")
        res += [b == ob, ob == b]
    return tuple(res)


EXPORTERS = [
    ("json", lambda d: d.serialize(format="json")),
    ("json-indent-sorted", lambda d: d.serialize(format="json", indent=2, sort_keys=True)),
    ("xml", lambda d: d.serialize(format="xml")),
    ("xml-force-types", lambda d: d.serialize(format="xml", force_types=True)),
    ("rdf", _rdf),
    ("provn", lambda d: d.serialize(format="provn")),
    ("get_provn", lambda d: d.get_provn()),
    ("dot", _dot),
    ("dot-labels-nonary", lambda d: _dot(d, use_labels=True, show_nary=False)),
    ("dot-noattrs", lambda d: _dot(d, show_element_attributes=False, show_relation_attributes=False, direction="LR")),
    ("graph", _graph),
    ("eq", _eq),
    ("hash", _hash),
    ("unified", lambda d: observe.dobs_ordered(d.unified())),
    ("flattened", lambda d: observe.dobs_ordered(d.flattened())),
]
EXP = dict(EXPORTERS)
JSON_OPTS = {"json": {}, "json-indent-sorted": {"indent": 2, "sort_keys": True}}


_DECOY = []


def preamble():
    """call history: another document is exported first, with options no judged call uses (so that anything an
    export leaves behind in the process shows in the judged calls, in a replay too)"""
    if not _DECOY:
        d = ProvDocument()
        d.add_namespace("ex", "http://a/")
        d.entity("ex:decoy", {"ex:k": 1})
        d.generation("ex:decoy", "ex:decoy-activity")
        _DECOY.append(d)
    d = _DECOY[0]
    d.serialize(format="json", indent=3, sort_keys=True, ensure_ascii=False)
    d.serialize(format="xml", force_types=True)
    d.get_provn()


_BIG = {}


def export_big_decoy(name, variant):
    """a larger other document (150 distinct values, ending - variant 0 - with 1.0 / 0.0 / -0.0 / an instant in UTC
    or - variant 1 - with True / False / the same instant at +05:30) goes through the exporter family of `name`:
    whatever bounded memo the exporter keeps is turned over, and what it last saw differs between the variants"""
    import datetime
    if variant not in _BIG:
        d = ProvDocument()
        d.add_namespace("ex", "http://big.example/")
        vals = [("ex:k%d" % i, "value %d" % i) for i in range(150)]
        if variant == 0:
            vals += [("ex:f1", 1.0), ("ex:f0", 0.0), ("ex:fn", -0.0),
                     ("ex:t", datetime.datetime(2014, 6, 7, 2, 39, 10, tzinfo=datetime.timezone.utc))]
        else:
            tz = datetime.timezone(datetime.timedelta(hours=5, minutes=30))
            vals += [("ex:f1", True), ("ex:f0", False), ("ex:t", datetime.datetime(2014, 6, 7, 8, 9, 10, tzinfo=tz))]
        d.entity("ex:big", vals)
        _BIG[variant] = d
    d = _BIG[variant]
    if "provn" in name:
        d.get_provn()
    elif name.startswith("json"):
        d.serialize(format="json")
    elif name.startswith("xml"):
        d.serialize(format="xml")
    elif name.startswith("dot"):
        _dot(d)


def full_obs(doc):
    return (observe.dobs_ordered(doc), observe.nsobs(doc))


def call(name, doc):
    try:
        return ("ok", EXP[name](doc))
    except Exception as e:
        return ("raised", type(e).__name__)


def rich_documents():
    """hand-built documents exercising the exporters' special cases (each returns a fresh document)"""
    import datetime
    from prov.identifier import Namespace, QualifiedName
    from prov.model import Literal, ProvBundle
    EX = Namespace("ex", "http://a/")
    OT = Namespace("other", "http://c/")
    PR = Namespace("prov", "http://www.w3.org/ns/prov#")
    T1 = datetime.datetime(2012, 3, 4, 5, 6, 7)

    def dup_same_attr():
        d = ProvDocument()
        d.add_namespace("ex", "http://a/")
        d.entity("ex:x", {"ex:k": 1, "prov:type": EX["T1"], "prov:label": "one"})
        d.entity("ex:x", {"ex:k": 2, "prov:type": EX["T2"]})
        d.activity("ex:a", T1)
        d.activity("ex:a", None, None, {"ex:k": "v"})
        d.generation("ex:x", "ex:a", identifier="ex:g", other_attributes={"ex:k": 1})
        d.generation("ex:x", "ex:a", identifier="ex:g", other_attributes={"ex:k": 2})
        return d

    def dup_in_bundle():
        d = ProvDocument()
        d.add_namespace("ex", "http://a/")
        b = d.bundle("ex:b1")
        b.entity("ex:x", {"ex:k": 1})
        b.entity("ex:x", {"ex:k": 2})
        b.agent("ex:x", {"prov:type": PR["Person"]})
        return d

    def attached_bundle():
        d = ProvDocument()
        d.add_namespace("ex", "http://a/")
        d.entity("ex:top")
        b = ProvBundle(identifier=QualifiedName(OT, "b9"))
        b.entity(QualifiedName(OT, "inside"), {QualifiedName(OT, "k"): QualifiedName(OT, "v")})
        d.add_bundle(b)
        b2 = ProvBundle(identifier=QualifiedName(Namespace("", "http://dflt/"), "b10"))
        b2.set_default_namespace("http://dflt/")
        b2.entity("bare")
        d.add_bundle(b2)
        return d

    def subtypes():
        d = ProvDocument()
        d.add_namespace("ex", "http://a/")
        d.agent("ex:p", {"prov:type": PR["Person"], "prov:label": Literal("Pierre", langtag="fr")})
        d.agent("ex:o", {"prov:type": [PR["Organization"], EX["Firm"]]} if False else {"prov:type": PR["Organization"]})
        d.collection("ex:c")
        d.revision("ex:e2", "ex:e1", identifier="ex:rev")
        d.membership("ex:c", "ex:e1")
        d.mention("ex:e2", "ex:e1", "ex:b")
        return d

    def two_documents_updated():
        d = ProvDocument()
        d.set_default_namespace("http://a/")
        d.entity("e1", {"k": "v"})
        o = ProvDocument()
        o.add_namespace("ex", "http://b/")
        o.bundle("ex:b").entity("ex:e", {"ex:k": 1.5})
        d.update(o)
        return d
    def not_unifiable_relation_first():
        d = ProvDocument()
        d.add_namespace("ex", "http://a/")
        d.generation("ex:e", "ex:a", identifier="ex:g")
        d.activity("ex:a", T1)
        d.entity("ex:e")
        d.activity("ex:a", datetime.datetime(2013, 1, 1))  # conflicting start time: unified() raises
        b = d.bundle("ex:b1")
        b.usage("ex:a", "ex:e")
        b.entity("ex:e")
        return d
    return [("not-unifiable-relation-before-elements", not_unifiable_relation_first),
            ("duplicates-same-attribute", dup_same_attr), ("duplicates-in-bundle", dup_in_bundle),
            ("bundles-attached-with-add_bundle", attached_bundle), ("subtypes-and-convenience-records", subtypes),
            ("updated-from-another-document", two_documents_updated)]


_A = ("A", "a", alphabets.S("ex"))
_K, _K2 = ("A", "k", alphabets.S("ex")), ("A", "k2", alphabets.S("ex"))
INTERLEAVED_EXTRA = [
    [("ns", "D", "ex", "A"), ("el", "D", "activity", _A, ("t1", None)), ("at", _K, "s_a"), ("settime", "end", "t1")],
    [("ns", "D", "ex", "A"), ("el", "D", "activity", _A, (None, None)), ("at", _K, "i_2"), ("settime", "start", "t2"), ("asrt", "q_prov")],
    [("ns", "D", "ex", "A"), ("el", "D", "entity", ("A", "x", alphabets.S("ex"))), ("at", _K, "s_a"), ("asrt", "q_prov"), ("at", _K2, "b_T")],
    [("ns", "D", "ex", "A"), ("rel", "D", "generation", None, (("A", "x", alphabets.S("ex")), None, None)), ("at", _K, "s_a"),
     ("at", ("P", "role", alphabets.Q("prov")), "s_a")],
    [("ns", "D", "ex", "A"), ("bun", "B1", ("A", "b1", alphabets.S("ex"))), ("el", "B1", "activity", _A, ("t1", None)),
     ("at", _K, "s_a"), ("settime", "end", "t1")],
]


class C13(spec.Spec):
    prop = "C13"

    def __init__(self, tier, params=None):
        super().__init__(tier, params)
        self.alphabet = alphabets.doc_history_alphabet(tier)

    SER_REUSE = [("json", {}), ("json", {"indent": 2, "sort_keys": True}), ("xml", {}), ("xml", {"force_types": True}),
                 ("provn", {}), ("rdf", {})]

    def serializer_reuse(self, hist, out):
        """one serializer object used for two exports: both texts are the text a fresh export gives (nothing
        an export learns may stay in the serializer object)"""
        import io
        import prov.serializers
        doc = self.fresh_doc(hist)
        base = full_obs(doc)
        hh = ("seq", list(hist) if hist and hist[0] == "rich" else self.ops(hist), ["serializer-object-twice"])
        for fmt, kw in self.SER_REUSE:
            out.evaluations += 1
            try:
                if fmt == "rdf":
                    _reset_bnodes()
                fresh = doc.serialize(format=fmt, **kw)
                ser = prov.serializers.get(fmt)(doc)
                texts = []
                for i in range(2):
                    if fmt == "rdf":
                        _reset_bnodes()
                    buf = io.BytesIO()
                    ser.serialize(buf, **kw)
                    texts.append(buf.getvalue().decode("utf-8"))
                    out.transitions += 1
            except Exception as e:
                out.outcomes["serializer-object:%s:raised" % fmt] += 1
                continue
            if full_obs(doc) != base:
                out.violation("export-mutates-document", "%s:serializer-object" % fmt, {}, hh)
                return
            same = (lambda a, b: a == b or _rdf_isomorphic(a, b)) if fmt == "rdf" else (lambda a, b: a == b)
            if not (same(texts[0], fresh) and same(texts[1], fresh)):
                out.violation("serializer-object-reused-gives-other-text", "%s:%s" % (fmt, "first" if not same(texts[0], fresh) else "second"),
                              {"options": kw, "fresh": fresh[:600], "first": texts[0][:600], "second": texts[1][:600]}, hh)
                return
            out.outcomes["serializer-object:%s:same" % fmt] += 1
            out.nontrivial += 1

    def state_case(self, item, out):
        hist, n = item
        names = [e[0] for e in EXPORTERS]
        self.serializer_reuse(hist, out)
        for k in range(1, n + 1):
            for seq in itertools.product(names, repeat=k):
                self.run_seq(hist, seq, out)

    # -- exports interleaved with construction ---------------------------------------------------
    INTERLEAVED = ["provn", "json", "xml", "dot", "graph", "eq", "hash", "unified", "flattened"]
    FINAL = ["json", "xml", "provn", "get_provn"]

    def interleaved_case(self, hist, out):
        """an export in the middle of building a document must not influence what is exported at the end"""
        base_ops = self._as_ops(hist)
        if len(base_ops) < 2:
            return
        # the canonical state key does not record in which order attributes arrived: every replayable
        # ordering of the history's calls is tried (the explored history is only one representative)
        seen = set()
        # (every ordering for histories of up to 3 calls; for longer ones the explored order and its reverse)
        perms = itertools.permutations(base_ops) if len(base_ops) <= 3 else [tuple(base_ops), tuple(reversed(base_ops))]
        for perm in perms:
            if perm in seen:
                continue
            seen.add(perm)
            self._interleaved_ordering(list(perm), hist, out)

    def interleaved_extra_case(self, i, out):
        """hand-picked longer histories (a record, then edits of it through every in-place editor), every ordering"""
        for perm in set(itertools.permutations(INTERLEAVED_EXTRA[i])):
            self._interleaved_ordering(list(perm), None, out)

    def _interleaved_ordering(self, ops, hist, out):
        n = len(ops)
        twin_st = machine.State()
        try:
            for op in ops:
                machine.apply(twin_st, op, self.values)
        except (machine.NotEnabled, machine.NonConformance):
            return
        twin = twin_st.doc
        hist = ("ops",) + tuple(ops)
        want = {f: call(f, twin) for f in self.FINAL}
        want_obs = full_obs(twin)
        for k in range(1, n):
            for e in self.INTERLEAVED:
                st = machine.State()
                try:
                    for op in ops[:k]:
                        machine.apply(st, op, self.values)
                    call(e, st.doc)
                    for op in ops[k:]:
                        machine.apply(st, op, self.values)
                except (machine.NotEnabled, machine.NonConformance):
                    out.filters["interleaved-history-not-replayable"] += 1
                    continue
                except Exception as ex:
                    out.violation("export-breaks-later-construction", "%s:%s" % (e, type(ex).__name__),
                                  {"error": repr(ex)[:300], "after_ops": k}, ("seq", self.ops(hist), ["%s@%d" % (e, k)]))
                    continue
                out.evaluations += 1
                out.transitions += 1
                hh = ("seq", self.ops(hist), ["%s@%d" % (e, k)] + self.FINAL)
                if full_obs(st.doc) != want_obs:
                    out.violation("export-mutates-document", "%s:interleaved" % e, {"after_ops": k}, hh)
                    continue
                bad = [f for f in self.FINAL if call(f, st.doc) != want[f]]
                if bad:
                    out.violation("export-differs-from-twin", "%s-after-interleaved-%s" % (bad[0], e),
                                  {"after_ops": k, "doc": repr(call(bad[0], st.doc))[:400], "twin": repr(want[bad[0]])[:400]}, hh)
                else:
                    out.outcomes["interleaved-ok"] += 1
                    out.nontrivial += 1

    def rich_case(self, item, out):
        name, n = item
        names = [e[0] for e in EXPORTERS]
        self.serializer_reuse(("rich", name), out)
        for k in range(1, n + 1):
            for seq in itertools.product(names, repeat=k):
                self.run_seq(("rich", name), seq, out)

    def fresh_doc(self, hist):
        if hist and hist[0] == "rich":
            return dict(rich_documents())[hist[1]]()
        return self.fresh(hist).doc

    def run_seq(self, hist, seq, out):
        preamble()
        doc = self.fresh_doc(hist)
        base = full_obs(doc)
        hh = ("seq", list(hist) if hist and hist[0] == "rich" else self.ops(hist), list(seq))
        out.evaluations += 1
        last = None
        if len(seq) == 1:
            export_big_decoy(seq[0], 0)
        for k, name in enumerate(seq):
            last = call(name, doc)
            out.transitions += 1
            if name in JSON_OPTS and last[0] == "ok":
                # the text is what the standard library prints for the same data under the options of THIS call
                # (and of no earlier one)
                import json
                if json.dumps(json.loads(last[1]), **JSON_OPTS[name]) != last[1]:
                    out.violation("export-text-not-under-the-options-of-this-call", name,
                                  {"text": last[1][:300], "step": k}, hh)
                    return
            now = full_obs(doc)
            if now != base:
                what = "content" if now[0] != base[0] else "namespaces"
                out.violation("export-mutates-document", "%s:%s" % (name, what),
                              {"before": repr(base)[:700], "after": repr(now)[:700], "step": k}, hh)
                return
        name = seq[-1]
        if len(seq) == 1:
            export_big_decoy(name, 1)
            again = call(name, doc)
            if again != last:
                out.violation("export-not-repeatable", name,
                              {"first": repr(last)[:500], "second": repr(again)[:500]}, hh)
                return
            if full_obs(doc) != base:
                out.violation("export-mutates-document", "%s:second-call" % name, {}, hh)
                return
        twin = self.fresh_doc(hist)
        tw = call(name, twin)
        if tw != last:
            if name == "rdf" and last[0] == "ok" and tw[0] == "ok" and _rdf_isomorphic(last[1], tw[1]):
                out.outcomes["rdf-isomorphic-not-identical"] += 1
            else:
                out.violation("export-differs-from-twin", "%s%s" % (name, "" if len(seq) == 1 else "-after-" + seq[-2]),
                              {"doc": repr(last)[:500], "twin": repr(tw)[:500]}, hh)
                return
        out.outcomes["%s:%s" % (name, last[0])] += 1
        out.nontrivial += 1
        out.conform += 1
        if len(out.samples) < 1 and len(seq) > 1 and len(hist) > 2 and hist[0] != "rich":
            out.samples.append({"history": self.ops(hist), "exports": list(seq)})

    def ops(self, hist):
        if hist and hist[0] == "seq":
            return list(hist)
        if hist and hist[0] == "ops":
            return [repr(o) for o in hist[1:]]
        return spec.Spec.ops(self, hist)

    def render(self, hist):
        if hist and hist[0] == "seq":
            import ast
            ops = [ast.literal_eval(x) for x in hist[1]]
            return machine.render(ops, range(len(ops)), self.values) + "\n# then call the exporters %s on d" % (hist[2],)
        return spec.Spec.render(self, hist)


def _rdf_isomorphic(t1, t2):
    from rdflib import ConjunctiveGraph
    from rdflib.compare import to_isomorphic
    g1, g2 = ConjunctiveGraph(), ConjunctiveGraph()
    g1.parse(data=t1, format="trig")
    g2.parse(data=t2, format="trig")
    c1 = {str(c.identifier) if not c.identifier.startswith("_:") and "BNode" not in type(c.identifier).__name__ else "": c
          for c in g1.contexts()}
    c2 = {str(c.identifier) if not c.identifier.startswith("_:") and "BNode" not in type(c.identifier).__name__ else "": c
          for c in g2.contexts()}
    if set(c1) != set(c2):
        return False
    return all(to_isomorphic(c1[k]) == to_isomorphic(c2[k]) for k in c1)


def make_spec(tier, params):
    return C13(tier, params)


def main(tier, seed):
    import time
    from .. import runner
    t0 = time.time()
    sp = make_spec(tier, {})
    depth = {"quick": 3, "thorough": 4}[tier]
    hists = []
    out, stats = explore.bfs(__name__, tier, {}, depth, collect=hists)
    items = []
    if tier == "quick":
        items += [(h, 1) for h in hists if len(h) == 3]
        items += [(h, 2) for h in hists if len(h) <= 2]
    else:
        items += [(h, 1) for h in hists if len(h) == 4]
        items += [(h, 2) for h in hists if len(h) == 3]
        items += [(h, 3) for h in hists if len(h) <= 2 and len(h) > 0]
    out2 = explore.pmap(__name__, tier, {}, "state_case", items, chunk=2)
    out.merge(out2)
    out.evaluations -= len(items)
    inter = [h for h in hists if len(h) >= 2 and (tier == "thorough" or len(h) <= 3)]
    out4 = explore.pmap(__name__, tier, {}, "interleaved_case", inter, chunk=4)
    out4.evaluations -= len(inter)
    out.merge(out4)
    out5 = explore.pmap(__name__, tier, {}, "interleaved_extra_case", list(range(len(INTERLEAVED_EXTRA))), chunk=1)
    out5.evaluations -= len(INTERLEAVED_EXTRA)
    out.merge(out5)
    rich = [(name, 2 if tier == "quick" else 3) for name, _ in rich_documents()]
    out3 = explore.pmap(__name__, tier, {}, "rich_case", rich, chunk=1)
    out3.evaluations -= len(rich)
    out.merge(out3)
    vs, nsig = runner.violations_json(sp, out)
    cov = runner.coverage_from(out, stats, sp, (
        "all %d states of the 65-letter document alphabet to depth %d x every ordered sequence of exporter calls "
        "(15 exporters; sequence length 1 on the deepest level, longer on shallower ones); distinct = (state, "
        "sequence); non-trivial = every call left content, order and namespaces unchanged and the last export was "
        "compared with a twin document" % (len(hists), depth)), extra={"exporters": [e[0] for e in EXPORTERS]})
    return {"property": "C13", "coverage": cov, "violations": vs, "signatures": nsig,
            "wall_s": round(time.time() - t0, 2)}


def replay(item, tier, seed):
    import ast
    from .. import runner
    sp = make_spec(tier, {})
    out = explore.Out()
    h = item.get("history", [])
    if h and h[0] == "seq" and h[2] == ["serializer-object-twice"]:
        sp.serializer_reuse(tuple(h[1]) if h[1] and h[1][0] == "rich" else tuple(ast.literal_eval(x) for x in h[1]), out)
    elif h and h[0] == "seq" and h[2] and "@" in str(h[2][0]):
        sp.interleaved_case(tuple(ast.literal_eval(x) for x in h[1]), out)
    elif h and h[0] == "seq":
        if h[1] and h[1][0] == "rich":
            sp.run_seq(tuple(h[1]), tuple(h[2]), out)
        else:
            sp.run_seq(tuple(ast.literal_eval(x) for x in h[1]), tuple(h[2]), out)
    vs, _ = runner.violations_json(sp, out)
    return {"property": "C13", "coverage": {"states": 1, "transitions": 1, "traces_validated_against_impl": 1,
            "samples": [{"replayed": h}]}, "violations": vs, "wall_s": 0}
