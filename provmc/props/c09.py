"""C09 - flattened(), update() and add_bundle() conserve records.

1. BFS collects every state (history) of a reduced document alphabet (shared bundle
   identifiers, clashing prefixes, different defaults at both levels, repeated identifiers).
2. For every ordered pair (d, other) of those states, every sequence of <= L operations from
   {update(other), add_bundle(other as bundle-free document | with no identifier | under a
   duplicate identifier | as a stand-alone bundle), flattened} is executed on fresh replays and
   compared step by step with multiset arithmetic on strict observations (the reference).
   `other` must stay unchanged; a refused call must leave d unchanged.
"""
import itertools

from prov.identifier import Namespace, QualifiedName
from prov.model import ProvBundle, ProvDocument, ProvException

from .. import explore, machine, observe, spec
from ..alphabets import S, Q, BARE, URI

NB = ("http://bn/", "nb")


def alphabet():
    x, xd, xb = ("A", "x", Q("ex")), ("A", "x", BARE), ("B", "x", Q("ex"))
    return [
        ("ns", "D", "ex", "A"), ("ns", "D", "ex", "B"), ("def", "D", "A"), ("def", "D", "B"),
        ("ns", "D", "cc", "C"),
        ("bun", "B1", ("C", "b1", Q("bn"))), ("bun", "B1", ("C", "b2", Q("bn"))),
        ("ns", "B1", "ex", "B"), ("def", "B1", "B"),
        ("el", "D", "entity", x), ("el", "D", "entity", xd), ("el", "D", "entity", xb),
        # a third URI under the prefix 'ex' (QualifiedName spelling: no declaration needed), in both scopes
        ("el", "D", "entity", ("C", "x", Q("ex"))), ("el", "B1", "entity", ("B", "x", Q("ex"))),
        ("el", "B1", "entity", x), ("el", "B1", "entity", ("B", "x", BARE)), ("el", "B1", "entity", ("B", "x", S("ex"))),
        ("rel", "D", "generation", None, (x, None, None)),
        ("rel", "B1", "generation", ("A", "g", Q("ex")), (x, ("A", "a", Q("ex")), None)),
        ("at", ("A", "k", Q("ex")), "s_a"),
        # PROV-DM argument names as additional attributes of records that do not have that argument
        ("at", ("P", "plan", Q("prov")), "q_exA"), ("at", ("P", "time", Q("prov")), "d_naive"),
        # falsy values (0, '', False) must be carried over like any other
        ("at", ("A", "k", Q("ex")), "i_0"), ("at", ("P", "label", Q("prov")), "s_empty"), ("at", ("A", "k", Q("ex")), "b_F"),
    ]


OPS = ["upd", "addb-doc", "addb-noid", "addb-dup", "addb-dup-string", "addb-bundle", "addb-bundle-as", "addb-unresolvable", "read-then-assert-type", "addb-bundle-of-another-document-as-string", "flat"]


def to_model(doc):
    top, bundles = observe.dobs_ordered(doc)
    m = {}
    for u, rs in bundles:
        m.setdefault(u, []).extend(rs)
    return [list(top), m]


def mnorm(m):
    return (observe.mset(m[0]), tuple(sorted((u, observe.mset(rs)) for u, rs in m[1].items())))


class C09(spec.Spec):
    prop = "C09"

    def __init__(self, tier, params=None):
        super().__init__(tier, params)
        self.alphabet = alphabet()

    def check_state(self, st, out):
        # the collecting BFS: flattened() on every state, directly
        doc = st.doc
        before = (observe.dobs_ordered(doc), observe.nsobs(doc))
        m = to_model(doc)
        try:
            f = doc.flattened()
        except Exception as e:
            out.violation("flattened-raises", type(e).__name__, {"error": repr(e)}, st.hist)
            return
        want = (observe.mset(m[0] + [r for rs in m[1].values() for r in rs]), ())
        got = observe.dobs(f)
        if got != want:
            out.violation("flattened-differs", ",".join(observe.classify_diff(want, got)),
                          {"diff": observe.diff_obs(want, got)}, st.hist)
        else:
            out.outcomes["flattened-ok"] += 1
        if (observe.dobs_ordered(doc), observe.nsobs(doc)) != before:
            out.violation("flattened-changes-source", "state", {}, st.hist)
        if m[1] and any(m[1].values()):
            out.nontrivial += 1

    # -- pair sequences ---------------------------------------------------------------
    def pair_case(self, item, out):
        h1, h2, maxlen = item[:3]
        ops = item[3] if len(item) > 3 else OPS
        for n in range(1, maxlen + 1):
            for seq in itertools.product(ops, repeat=n):
                if seq.count("flat") and seq[-1] != "flat":
                    # flattened() returns a new document; only explored as the last step here
                    continue
                self.run_seq(h1, h2, seq, out)

    def run_seq(self, h1, h2, seq, out):
        d = self.fresh(h1).doc
        o = self.fresh(h2).doc
        hist = ("pair", self.ops(h1), self.ops(h2), list(seq))
        o_before = (observe.dobs_ordered(o), observe.nsobs(o))
        M = to_model(d)
        O = to_model(o)
        out.evaluations += 1
        nontrivial = False
        for k, op in enumerate(seq):
            d_before = (observe.dobs_ordered(d), observe.nsobs(d))
            expect_refusal = False
            target = d
            try:
                if op == "upd":
                    M[0] = M[0] + O[0]
                    for u, rs in O[1].items():
                        M[1].setdefault(u, [])
                        M[1][u] = M[1][u] + rs
                    nontrivial = nontrivial or bool(O[0]) or bool(O[1])
                    d.update(o)
                elif op == "addb-doc":
                    ident = QualifiedName(Namespace("bn", NB[0]), NB[1])
                    if O[1] or ident.uri in M[1]:
                        expect_refusal = True
                    else:
                        M[1][ident.uri] = list(O[0])
                        nontrivial = nontrivial or bool(O[0])
                    d.add_bundle(o, ident)
                elif op == "addb-noid":
                    expect_refusal = True
                    d.add_bundle(o)
                elif op == "addb-dup":
                    if not M[1]:
                        continue
                    expect_refusal = True
                    dup = list(d.bundles)[0].identifier
                    d.add_bundle(o, dup)
                elif op == "addb-dup-string":
                    # the identifier of an existing bundle of d, spelt 'prefix:local' with a prefix that
                    # `other` declares (the identifier is resolved in the attached bundle's scope)
                    spelt = None
                    for b in d.bundles:
                        for ns in o.namespaces:
                            if ns.prefix and b.identifier.uri.startswith(ns.uri) and len(b.identifier.uri) > len(ns.uri):
                                spelt = "%s:%s" % (ns.prefix, b.identifier.uri[len(ns.uri):])
                    if spelt is None or O[1]:
                        continue
                    expect_refusal = True
                    d.add_bundle(o, spelt)
                elif op == "addb-bundle":
                    ident = QualifiedName(Namespace("bn", NB[0]), "sb")
                    sb = ProvBundle(records=o.get_records(), identifier=ident)
                    if ident.uri in M[1]:
                        expect_refusal = True
                    else:
                        M[1][ident.uri] = list(O[0])
                    d.add_bundle(sb)
                elif op == "addb-bundle-as":
                    # a bundle that already calls itself X, attached under the requested identifier Y
                    own = QualifiedName(Namespace("bn", NB[0]), "own-name")
                    ident = QualifiedName(Namespace("bn", NB[0]), "as")
                    sb = ProvBundle(records=o.get_records(), identifier=own)
                    if ident.uri in M[1]:
                        expect_refusal = True
                    else:
                        M[1][ident.uri] = list(O[0])
                    d.add_bundle(sb, ident)
                elif op == "addb-unresolvable":
                    # the requested identifier denotes nothing (its prefix is declared nowhere): no identifier
                    expect_refusal = True
                    d.add_bundle(ProvBundle(records=o.get_records()), "nosuchprefix9:b")
                elif op == "addb-bundle-of-another-document-as-string":
                    # a bundle made by a third document that declares what `other` declares, attached to d under an
                    # identifier given as a string: the string means what it means in d (asked of d itself just before:
                    # resolving a string registers nothing)
                    t = ProvDocument(namespaces=list(o.namespaces))
                    if o.get_default_namespace() is not None:
                        t.set_default_namespace(o.get_default_namespace().uri)
                    b = t.bundle(QualifiedName(Namespace("bn", NB[0]), "made-elsewhere"))
                    b.entity(QualifiedName(Namespace("bn", NB[0]), "inside"))
                    meant = d.valid_qualified_name("ex:attached")
                    if meant is None or meant.uri in M[1]:
                        expect_refusal = True
                    else:
                        M[1][meant.uri] = [(machine.PROV_URI + "Entity", NB[0] + "inside", ())]
                        nontrivial = True
                    d.add_bundle(b, "ex:attached")
                elif op == "read-then-assert-type":
                    # every record of d is read (hashed, compared, its attributes listed), then one of them gets a
                    # further type through add_asserted_type(); what is copied later must include it
                    recs = list(d.get_records())
                    if not recs:
                        continue
                    for r in recs:
                        hash(r), r == r, list(r.attributes), r.extra_attributes, r.formal_attributes
                    d.flattened()
                    from prov.constants import PROV
                    recs[0].add_asserted_type(PROV["Plan"])
                    t0, i0, a0 = M[0][0]
                    pair = (PROV.uri + "type", ("qn", PROV.uri + "Plan"))
                    if pair not in a0:
                        M[0][0] = (t0, i0, tuple(a0) + (pair,))
                elif op == "flat":
                    M = [M[0] + [r for rs in M[1].values() for r in rs], {}]
                    d = d.flattened()
                    target = d
            except ProvException as e:
                if not expect_refusal:
                    out.violation("spurious-refusal", op, {"error": str(e), "step": k}, hist)
                    return
                if (observe.dobs_ordered(d), observe.nsobs(d)) != d_before:
                    out.violation("refusal-changed-d", op, {"step": k}, hist)
                    return
                out.outcomes["refused:" + op] += 1
                continue
            except Exception as e:
                out.violation("unexpected-exception", "%s:%s" % (op, type(e).__name__), {"error": repr(e), "step": k}, hist)
                return
            if expect_refusal:
                out.violation("not-refused", op, {"step": k}, hist)
                return
            got = observe.dobs(d)
            want = mnorm(M)
            if got != want:
                out.violation("records-not-conserved", "%s:%s" % (op, ",".join(observe.classify_diff(want, got))),
                              {"diff": observe.diff_obs(want, got), "step": k}, hist)
                return
            out.outcomes["ok:" + op] += 1
            if (observe.dobs_ordered(o), observe.nsobs(o)) != o_before:
                out.violation("other-changed", op, {"step": k}, hist)
                return
        # the result must still be a faithful, serialisable document (C01 from a non-initial state)
        try:
            d2 = ProvDocument.deserialize(content=d.serialize(format="json"), format="json")
            if observe.dobs(d2) != observe.dobs(d):
                out.violation("result-json-roundtrip", ",".join(observe.classify_diff(observe.dobs(d), observe.dobs(d2))),
                              {"diff": observe.diff_obs(observe.dobs(d), observe.dobs(d2))}, hist)
        except Exception as e:
            out.violation("result-json-roundtrip", type(e).__name__, {"error": repr(e)}, hist)
        if nontrivial:
            out.nontrivial += 1
        out.transitions += len(seq)
        out.conform += 1
        if len(out.samples) < 1 and len(seq) > 1:
            out.samples.append({"d": self.ops(h1), "other": self.ops(h2), "sequence": list(seq)})

    def render(self, hist):
        if hist and hist[0] == "pair":
            import ast
            _, o1, o2, seq = hist
            a = machine.render([ast.literal_eval(x) for x in o1], range(len(o1)), self.values)
            b = machine.render([ast.literal_eval(x) for x in o2], range(len(o2)), self.values)
            return "# d:\n%s\n# other (same code, then rename d -> o):\n%s\n# then on d, with other=o: %s" % (a, b, seq)
        return spec.Spec.render(self, hist)

    def ops(self, hist):
        if hist and hist[0] == "pair":
            return list(hist)
        return spec.Spec.ops(self, hist)


def make_spec(tier, params):
    return C09(tier, params)


def main(tier, seed):
    import time
    from .. import runner
    t0 = time.time()
    sp = make_spec(tier, {})
    d_states = {"quick": 3, "thorough": 3}[tier]
    hists = []
    out, stats = explore.bfs(__name__, tier, {}, d_states, collect=hists)
    by_len = {}
    for h in hists:
        by_len.setdefault(len(h), []).append(h)
    small = [h for h in hists if len(h) <= 2]
    items = []
    if tier == "quick":
        items += [(a, b, 2) for a in small for b in small if len(a) <= 1 and len(b) <= 1]
        items += [(a, b, 2) for a in small for b in small if (len(a) == 2) != (len(b) == 2) and min(len(a), len(b)) == 0]
        items += [(a, b, 1) for a in small for b in small if max(len(a), len(b)) == 2]
        items += [(a, b, 1) for a in hists for b in hists if (len(a) == 3) != (len(b) == 3) and min(len(a), len(b)) <= 1]
        # record-moving sequences (update, then flatten / update again) also for the deep x shallow pairs
        items += [(a, b, 2, ("upd", "flat")) for a in hists for b in hists
                  if (len(a) == 3) != (len(b) == 3) and min(len(a), len(b)) == 1]
    else:
        items += [(a, b, 3) for a in small for b in small if len(a) <= 1 and len(b) <= 1]
        items += [(a, b, 2) for a in small for b in small if max(len(a), len(b)) == 2]
        items += [(a, b, 2) for a in hists for b in hists if (len(a) == 3) != (len(b) == 3) and min(len(a), len(b)) <= 1]
        items += [(a, b, 1) for a in hists for b in hists if (len(a) == 3) != (len(b) == 3) and min(len(a), len(b)) == 2]
        items += [(a, b, 1, ("upd", "flat")) for a in hists for b in hists if len(a) == 3 and len(b) == 3]
    out2 = explore.pmap(__name__, tier, {}, "pair_case", items, chunk=40)
    out.merge(out2)
    out.evaluations = out.evaluations - len(items)  # pmap counts items; run_seq counts sequences
    vs, nsig = runner.violations_json(sp, out)
    cov = runner.coverage_from(out, stats, sp, (
        "all states of a 23-letter alphabet to depth %d (%d states); every ordered pair (d, other) x every "
        "operation sequence up to the stated length over %s, each step compared with multiset arithmetic on "
        "strict observations; distinct = (pair, sequence); non-trivial = the sequence moved at least one record"
        % (d_states, len(hists), OPS)),
        extra={"pairs": len(items), "states_collected": len(hists)})
    cov["traces_validated_against_impl"] = out.conform
    return {"property": "C09", "coverage": cov, "violations": vs, "signatures": nsig,
            "wall_s": round(time.time() - t0, 2)}


def replay(item, tier, seed):
    import ast
    from .. import runner
    sp = make_spec(tier, {})
    out = explore.Out()
    h = item.get("history", [])
    if h and h[0] == "pair":
        sp.run_seq(tuple(ast.literal_eval(x) for x in h[1]), tuple(ast.literal_eval(x) for x in h[2]), tuple(h[3]), out)
        vs, _ = runner.violations_json(sp, out)
        return {"property": "C09", "coverage": {"states": 1, "transitions": 1, "traces_validated_against_impl": 1,
                "samples": [{"replayed": h}]}, "violations": vs, "wall_s": 0}
    return runner.replay_generic(__name__, "C09", item, tier)
