"""C07 - PROV-O (RDF, TriG) round trip preserves the unified content of expressible documents.

The C01 enumerations (history exploration with the document alphabet; shape sweep) plus
RDF-specific families (two relations sharing a subject, two bundles), restricted to the
PROV-O-expressible space by one predicate per clause of the quantifier (R1..R9, each counted).
Every document is written as TriG and read back under ascending and descending blank-node
labels (rdflib labels blank nodes with uuid4; the harness owns that source of order).
Oracle: set-observation(round trip) == set-observation(d.unified()); no exception.
"""
import itertools

from prov.model import ProvDocument, ProvException

from .. import machine, observe, sweeps, spec
from ..machine import PROV_URI, RELATIONS
from . import c01

P = PROV_URI
XSD_URI = machine.U["X"]
ELEMENT = {P + "Entity", P + "Activity", P + "Agent"}
NO_QUALIFIED = {P + "Attribution", P + "Communication", P + "Delegation", P + "Influence", P + "Specialization",
                P + "Alternate", P + "Membership"}
FIRST_TWO = {
    "Generation": ("entity", "activity"), "Usage": ("activity", "entity"), "Communication": ("informed", "informant"),
    "Start": ("activity", "trigger"), "End": ("activity", "trigger"), "Invalidation": ("entity", "activity"),
    "Derivation": ("generatedEntity", "usedEntity"), "Attribution": ("entity", "agent"),
    "Association": ("activity", "agent"), "Delegation": ("delegate", "responsible"),
    "Influence": ("influencee", "influencer"), "Specialization": ("specificEntity", "generalEntity"),
    "Alternate": ("alternate1", "alternate2"), "Mention": ("specificEntity", "generalEntity"),
    "Membership": ("collection", "entity"),
}
FORMALS_OF = {P + tn: fs for tn, fs in RELATIONS.values()}
FORMALS_OF[P + "Activity"] = ("startTime", "endTime")
ARG_NAMES = machine.PROV_REF_LOCALS | machine.TIME_ATTRS
_counter = [0, 1]


def set_bnode_order(direction):
    import rdflib.term

    class _U(object):
        def __init__(self, n):
            self.hex = "%032x" % n

    _counter[0] = 0 if direction > 0 else 10 ** 9
    _counter[1] = direction

    def fake_uuid4():
        _counter[0] += _counter[1]
        return _U(_counter[0])

    rdflib.term.uuid4 = fake_uuid4


def ns_uri_of(uri, doc_ns):
    for u in doc_ns:
        if uri.startswith(u):
            return u
    return None


def rdf_filter(doc):
    """first clause of the quantifier that excludes the document, or None"""
    declared = sorted({ns.uri for ns in doc.namespaces if ns.prefix} | {P, XSD_URI}, key=len, reverse=True)
    top, bundles = observe.dobs(doc)
    conts = [top] + [rs for _, rs in bundles]
    names = [u for u, _ in bundles]
    kinds_of = {}
    for (u, rs) in bundles:
        if not rs:
            return "R2-empty-bundle"
    for rs in conts:
        subj_kind = {}
        same_ends = {}
        for t, i, attrs in rs:
            if i is not None:
                names.append(i)
                kinds_of.setdefault(i, set()).add(t)
            d = {}
            for a, v in attrs:
                names.append(a)
                d.setdefault(a, []).append(v)
                if v[0] == "qn":
                    names.append(v[1])
                if v[0] in ("float", "other") or (v[0] == "lit" and v[3] is None):
                    return "R9-value-kind"
            own = FORMALS_OF.get(t, ())
            for a in d:
                if a.startswith(P) and a[len(P):] in ARG_NAMES and a[len(P):] not in own:
                    # PROV-O names the arguments per relation class (the starter of a Start is prov:hadActivity,
                    # the activity of a Generation prov:activity ...): an argument name on a record kind that
                    # does not have that argument has no predicate of its own
                    return "R10-prov-argument-name-foreign-to-the-record-kind"
            if t in ELEMENT:
                for v in d.get(P + "type", []):
                    if v[0] == "qn" and v[1] in ELEMENT:
                        # 'x a prov:Entity' is the very triple that states the record's kind: as a prov:type
                        # value it is the same statement (same kind) or a second kind for the identifier (R3)
                        return "R3b-element-typed-with-a-base-class"
            if t not in ELEMENT:
                local = t[len(P):]
                if local == "Mention":
                    return "R5-mention"
                f1, f2 = FIRST_TWO[local]
                if P + f1 not in d or P + f2 not in d:
                    return "R4-missing-first-two"
                for v in d.get(P + "type", []):
                    if v[0] == "qn" and v[1].startswith(P):
                        return "R6-prov-class-as-relation-type"
                extra = [a for a in d if a not in (P + f1, P + f2)]
                if i is None and t in NO_QUALIFIED and extra:
                    return "R7-anonymous-unqualifiable-with-extras"
                key = (d[P + f1][0][1], t)
                seen = subj_kind.setdefault(key, set())
                seen.add("id" if i is not None else "anon")
                if len(seen) > 1:
                    return "R8-identified-and-anonymous-same-kind"
                if i is not None and t in (P + "Alternate", P + "Specialization", P + "Membership"):
                    # PROV-O has no qualified form for these: an identified one is not expressible
                    return "R0-identified-relation-without-qualified-form-in-PROV-O"
                if t in (P + "Association", P + "Delegation"):
                    # a plain triple and a qualified node with the same subject and agent are one
                    # statement made twice in PROV-O (writers may emit both): not distinguishable
                    k2 = (d[P + f1][0][1], d[P + f2][0][1], t)
                    forms = same_ends.setdefault(k2, set())
                    forms.add("plain" if (i is None and not extra) else "qualified")
                    if len(forms) > 1:
                        return "R8b-plain-and-qualified-restatement"
    for i, ks in kinds_of.items():
        if len(ks) > 1:
            return "R3-identifier-names-two-kinds"
    for n in names:
        if ns_uri_of(n, declared) is None:
            return "R1-namespace-not-declared-on-document"
    # R1 also speaks of prefixes: the name must be reachable through a document prefix
    return None


class C07(c01.C01):
    prop = "C07"
    fmt = "rdf"

    def __init__(self, tier, params=None):
        super().__init__(tier, params)
        import logging
        logging.disable(logging.CRITICAL)
        self.option_sets = [{}]
        self.sweep_option_sets = [{}]

    def judge(self, doc, out, hist, where, opts=None, extra=None):
        f = rdf_filter(doc)
        if f is not None:
            out.filters[f] += 1
            return
        try:
            u = doc.unified()
        except ProvException:
            out.filters["unification-raises"] += 1
            return
        want = observe.dobs_set(u)
        observe.touch(doc)
        verdicts = []
        for direction in (1, -1):
            set_bnode_order(direction)
            observe.export_decoy("rdf")
            set_bnode_order(direction)
            try:
                text = doc.serialize(format="rdf")
                d2 = ProvDocument.deserialize(content=text, format="rdf")
            except Exception as e:
                out.violation("rdf-roundtrip-exception", type(e).__name__,
                              {"error": repr(e)[:300], "where": where, "bnode_order": direction}, hist, extra)
                verdicts.append("exc")
                continue
            got = observe.dobs_set(d2)
            if got == want:
                out.outcomes["equal"] += 1
                verdicts.append("eq")
            else:
                g2 = (observe.mset(got[0]), tuple(sorted((k, observe.mset(v)) for k, v in got[1])))
                w2 = (observe.mset(want[0]), tuple(sorted((k, observe.mset(v)) for k, v in want[1])))
                out.violation("rdf-roundtrip-content", ",".join(observe.classify_diff(w2, g2)),
                              {"diff": observe.diff_obs(w2, g2), "where": where, "bnode_order": direction,
                               "text": text[:2000]}, hist, extra)
                verdicts.append("diff")
        if len(set(verdicts)) > 1:
            out.violation("verdict-depends-on-blank-node-order", "/".join(verdicts), {"where": where}, hist, extra)

    # RDF-specific families ----------------------------------------------------------
    def rdf_case(self, case, out):
        return self.sweep_case(case, out)


def rdf_cases():
    S = lambda p: ("s", p)
    nm = lambda l: ("A", l, S("ex"))
    pre = (("ns", "D", "ex", "A"),)
    out = []
    # eleven identifiable kinds x masks x anon/id x extras
    extras = [(), (("at", ("P", "role", ("q", "prov")), "s_a"),), (("at", nm("k"), "s_a"),), (("at", nm("k"), "i_2"),),
              (("at", ("P", "type", ("q", "prov")), "q_exA"),), (("at", ("P", "location", ("q", "prov")), "s_a"),),
              (("at", ("P", "label", ("q", "prov")), "s_a"),), (("at", nm("k"), "d_530"),), (("at", nm("k"), "u_plain"),),
              (("at", nm("k"), "l_lang"),), (("at", nm("k"), "b_T"),), (("at", nm("k"), "i_0"),),
              (("at", nm("k"), "b_F"),), (("at", nm("k"), "s_empty"),), (("at", nm("k"), "i_1"), ("at", nm("k2"), "b_T")),
              (("at", nm("k"), "b_F"), ("at", nm("k2"), "i_0"))]
    # user attribute names that contain the names of PROV terms
    for lookalike in ("activityLevel", "entityCount", "agentName", "planB", "timeZone", "usedBy", "roleName",
                      "hadRoleX", "qualifiedNote", "asInBundleNote", "typeName"):
        extras.append((("at", nm(lookalike), "s_a"),))
    for kind, mask in sweeps.shapes():
        if kind not in RELATIONS:
            continue
        for idmode in ("anon", "id"):
            for ex in extras:
                rec = sweeps.shape_ops("D", S("ex"), "A", kind, mask, idmode)
                out.append(("rdf|%s%r|%s" % (kind, mask, idmode), pre + (rec,) + ex))
    # names that a Turtle writer cannot abbreviate (a slash or a trailing dot in the local part), in a namespace no
    # other name uses: the text then carries no @prefix for it
    sl = lambda l: ("A", l, S("ex"))
    out.append(("rdf|derivation|unabbreviable-names", pre + (("rel", "D", "derivation", None, (sl("v2/report"), sl("v1/report"), None, None, None)),)))
    out.append(("rdf|usage|unabbreviable-names", pre + (("rel", "D", "usage", sl("u/1"), (sl("a/1"), sl("e/1"), "t1")),)))
    out.append(("rdf|entity|trailing-slash", pre + (("el", "D", "entity", sl("dir/")),)))
    out.append(("rdf|entity|trailing-dot", pre + (("el", "D", "entity", sl("a.")), ("rel", "D", "derivation", None, (sl("b."), sl("a."), None, None, None)))))
    out.append(("rdf|bundle|unabbreviable-names", pre + (("bun", "B1", sl("run/1")), ("rel", "B1", "derivation", None, (sl("x/2"), sl("x/1"), None, None, None)))))
    # ... next to a declared namespace that continues after the last '/' of the same URI (rec: <http://a/rec?id=>),
    # met before and after the unabbreviable sibling
    pre2 = (("ns", "D", "rec", "AQ"), ("ns", "D", "ex", "A"))
    rc = lambda l: ("AQ", l, S("rec"))
    for odd in ("AT&T", "Smith,J", "draft.", "C++"):
        out.append(("rdf|attribution|unabbreviable-sibling-of-a-query-namespace", pre2 + (
            ("el", "D", "entity", rc("r17")), ("rel", "D", "attribution", None, (rc("r17"), sl(odd))))))
        out.append(("rdf|attribution|unabbreviable-sibling-of-a-query-namespace", pre2 + (
            ("rel", "D", "attribution", None, (sl(odd), rc("r17"))), ("el", "D", "agent", rc("r17")))))
        out.append(("rdf|bundle|unabbreviable-sibling-of-a-query-namespace", pre2 + (
            ("bun", "B1", rc("b1")), ("el", "B1", "entity", rc("r17")), ("rel", "B1", "derivation", None, (rc("r17"), sl(odd), None, None, None)))))
    # a document whose TriG text is longer than any copy block and dense in multi-byte characters
    for kind in ("entity", "generation"):
        rec = sweeps.shape_ops("D", S("ex"), "A", kind, () if kind == "entity" else (True, True, True), "id")
        out.append(("rdf|%s|large-dense-non-ascii" % kind, pre + (rec, ("at", nm("k"), "s_big_dense"), ("at", nm("k2"), "s_uni"))))
    # two relations sharing a subject
    rels = [("generation", (True, True, False)), ("generation", (True, True, True)), ("usage", (True, True, False)),
            ("derivation", (True, True, False, False, False)), ("attribution", (True, True)),
            ("association", (True, True, False)), ("association", (True, True, True)), ("start", (True, True, False, False)),
            ("invalidation", (True, True, True))]
    for (k1, m1), (k2, m2) in itertools.product(rels, repeat=2):
        for id1, id2 in itertools.product(("anon", "id"), repeat=2):
            r1 = sweeps.shape_ops("D", S("ex"), "A", k1, m1, id1, "r1")
            r2 = sweeps.shape_ops("D", S("ex"), "A", k2, m2, id2, "r2")
            out.append(("rdf|pair|%s+%s" % (k1, k2), pre + (r1, r2)))
    # equal-but-different-kind values on different records of one document (and its bundle)
    for a, b in sweeps.ACROSS:
        if a.startswith("f_") or b.startswith("f_"):
            continue  # floats are outside the claimed value kinds (R9)
        for k1, m1 in rels[:3] + [("entity", ())]:
            r1 = sweeps.shape_ops("D", S("ex"), "A", k1, m1, "id", "r1")
            r2 = sweeps.shape_ops("D", S("ex"), "A", "entity", (), "id", "r2")
            out.append(("rdf|across-records|%s" % k1, pre + (r1, ("at", nm("k"), a), r2, ("at", nm("k"), b))))
            out.append(("rdf|across-doc-and-bundle|%s" % k1,
                        pre + (r1, ("at", nm("k"), a), ("bun", "B1", nm("b1")),
                               sweeps.shape_ops("B1", S("ex"), "A", "entity", (), "id", "r2"), ("at", nm("k"), b))))
    # bundles
    b1 = ("bun", "B1", nm("b1"))
    for kind, mask in rels:
        for idmode in ("anon", "id"):
            rec_b = sweeps.shape_ops("B1", S("ex"), "A", kind, mask, idmode)
            rec_d = sweeps.shape_ops("D", S("ex"), "A", kind, mask, idmode, "r9")
            out.append(("rdf|bundle|%s" % kind, pre + (b1, rec_b)))
            out.append(("rdf|doc+bundle|%s" % kind, pre + (rec_d, b1, rec_b, ("el", "B1", "entity", nm("e1")))))
    return out


def make_spec(tier, params):
    return C07(tier, params)


def main(tier, seed):
    import time
    from .. import explore, runner
    parts = [("history", runner.run_history(__name__, "C07", tier, seed, {"quick": 3, "thorough": 4}[tier]))]
    parts.append(("sweep", sweeps.run_sweep(__name__, "C07", tier, seed, "rdf")))
    t0 = time.time()
    sp = make_spec(tier, {})
    cs = rdf_cases()
    out = explore.pmap(__name__, tier, {}, "rdf_case", cs, chunk=20)
    vs, nsig = runner.violations_json(sp, out)
    parts.append(("rdf-families", {"property": "C07", "violations": vs, "wall_s": round(time.time() - t0, 2), "coverage": {
        "states": out.nontrivial, "transitions": out.transitions, "traces_validated_against_impl": out.conform,
        "evaluations": out.evaluations, "distinct_nontrivial": out.nontrivial, "exhaustive": True, "cases": len(cs),
        "rule": "15 relation kinds x argument masks x anon/id x 11 extras; all ordered pairs of 9 relation shapes sharing a "
                "subject x anon/id; bundles; each under both blank-node orders",
        "samples": out.samples[:1], "filters": dict(out.filters), "outcomes": dict(out.outcomes)}}))
    return runner.merge_results("C07", parts)


def replay(item, tier, seed):
    from .. import runner
    return runner.replay_generic(__name__, "C07", item, tier)
