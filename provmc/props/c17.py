"""C17 - writing to a file path is exact and all-or-nothing (fault enumeration).

Environment model at the system-call boundary: native/faultfs.c (LD_PRELOAD) interposes write,
rename*, sendfile, copy_file_range, open*, unlink, fsync for paths under a per-case sandbox and
is armed through ctypes.  Enumerated exhaustively:
  format x document size x destination name x pre-existing destination x fault schedule with
  0, 1 (thorough: 2) deviations from the fault-free run: the k-th write fails (every k), the k-th
  write is short, the final move fails (EACCES), the move answers EXDEV (other file system) and
  then the j-th copy step fails, removal of the temporary file fails, serialisation itself raises.
Oracle: on success exactly the named file is created/changed, byte-equal to the BytesIO
serialisation, nothing else appears or disappears; on failure the exception reaches the caller
and the named file is byte-identical to what it was (or still absent).
"""
import ctypes
import errno
import io
import os
import shutil
import subprocess
import sys
import tempfile

HERE = os.path.dirname(os.path.dirname(os.path.dirname(os.path.abspath(__file__))))
SO = os.path.join(HERE, "build", "faultfs.so")

OPS = {"write": 1, "rename": 2, "sendfile": 3, "copy_file_range": 4, "open": 5, "unlink": 6, "fsync": 7, "close": 8}
NAMES = ["out.dat", "ABS", "a b.dat", "é.dat", "a#b.dat", "a?b.dat", "a;b.dat", "c:d.dat", "sub/x.dat", "./rel.dat",
         "r%20x.dat", "50%.dat", "a&b=c.dat", "~x.dat",
         # a non-ASCII name in DECOMPOSED form (e + combining acute; "é.dat" above is the composed form): the file
         # system keeps names byte for byte, the two forms are two files
         "e\u0301-nfd.dat",
         # names near the file system's limit of 255 BYTES: 80 three-byte characters, 250 ASCII letters
         "\u6f22" * 80 + ".dat", "a" * 246 + ".dat",
         # the destination name is a symbolic link to a regular file in another directory (always pre-existing)
         "LINK"]
# how the name is handed over: the str itself, a pathlib.Path, the bytes file-system encoding (all accepted by open())
NAME_KINDS = {"e\u0301-nfd.dat": ("str", "path", "bytes"), "out.dat": ("str", "path", "bytes"), "a#b.dat": ("str", "path", "bytes"), "é.dat": ("str", "path", "bytes"),
              "ABS": ("str", "path")}


def ensure_shim():
    if not os.path.exists(SO):
        os.makedirs(os.path.dirname(SO), exist_ok=True)
        subprocess.check_call(["gcc", "-O1", "-shared", "-fPIC", "-o", SO, os.path.join(HERE, "native", "faultfs.c"), "-ldl"])


def main(tier, seed):
    """re-executes itself under LD_PRELOAD (the shim must be loaded before libc is used)"""
    ensure_shim()
    if SO not in os.environ.get("LD_PRELOAD", ""):
        import json
        fd, outp = tempfile.mkstemp(prefix="provmc_c17_", suffix=".json")
        os.close(fd)
        env = dict(os.environ)
        env["LD_PRELOAD"] = SO
        try:
            subprocess.check_call([sys.executable, "-B", "-m", "provmc.props.c17", tier, str(seed), outp],
                                  env=env, cwd=HERE)
            with open(outp) as f:
                return json.load(f)
        finally:
            os.unlink(outp)
    return real_main(tier, seed)


# ---- everything below runs with the shim loaded -----------------------------------------
def lib():
    l = ctypes.CDLL(SO)
    l.faultfs_count.restype = ctypes.c_long
    l.faultfs_rule.argtypes = [ctypes.c_int, ctypes.c_long, ctypes.c_int, ctypes.c_int, ctypes.c_long]
    l.faultfs_reset.argtypes = [ctypes.c_char_p]
    return l


def make_doc(size, fmt, broken=False):
    import datetime
    from prov.model import ProvDocument
    d = ProvDocument()
    d.add_namespace("ex", "http://a/")
    n = {"small": 1, "20kB": 40, "200kB": 400}[size]
    for i in range(n):
        e = d.entity("ex:e%d" % i, {"ex:k": "é" + "x" * 480, "ex:i": i})
    d.activity("ex:a", datetime.datetime(2012, 3, 4, 5, 6, 7))
    d.generation("ex:e0", "ex:a", identifier="ex:g")
    if broken:
        d.entity("ex:bad", {"ex:k": Unserialisable()})
    return d


class Unserialisable(object):
    """an attribute value no serializer can write: makes serialisation itself fail"""

    def __str__(self):
        raise RuntimeError("unserialisable value")

    __repr__ = __str__

    def __hash__(self):
        return 1


def snapshot(root):
    out = {}
    for dp, dn, fn in os.walk(root):
        for f in fn:
            p = os.path.join(dp, f)
            try:
                with open(p, "rb") as fh:
                    out[os.path.relpath(p, root)] = fh.read()
            except OSError as e:
                out[os.path.relpath(p, root)] = "unreadable:%s" % e
    return out


def schedules(tier, counts):
    """all fault schedules with <= 1 (thorough: 2) deviations, given the syscall counts of the fault-free run"""
    W = counts["write"]
    out = [("none", [])]
    for k in range(1, W + 1):
        out.append(("write#%d-ENOSPC" % k, [("write", k, 1, errno.ENOSPC, 0)]))
        out.append(("write#%d-short" % k, [("write", k, 2, 0, 7)]))
    out.append(("write#1-EIO", [("write", 1, 1, errno.EIO, 0)]))
    out.append(("rename-EACCES", [("rename", 1, 1, errno.EACCES, 0)]))
    out.append(("rename-EXDEV", [("rename", 1, 1, errno.EXDEV, 0)]))
    # the move is refused every time it is tried (one environment condition: no permission to replace)
    for e, en in ((errno.EACCES, "EACCES"), (errno.EPERM, "EPERM")):
        out.append(("rename-%s-persistent" % en, [("rename", k, 1, e, 0) for k in (1, 2, 3)]))
    out.append(("open-dest-EACCES", [("open", 2, 1, errno.EACCES, 0)]))
    out.append(("close#1-EIO", [("close", 1, 1, errno.EIO, 0)]))
    out.append(("close#1-EIO+unlink-EACCES", [("close", 1, 1, errno.EIO, 0), ("unlink", 1, 1, errno.EACCES, 0)]))
    if tier == "thorough":
        for k in range(1, W + 1):
            out.append(("write#%d-short+write#%d-ENOSPC" % (k, k + 1), [("write", k, 2, 0, 7), ("write", k + 1, 1, errno.ENOSPC, 0)]))
            out.append(("write#%d-ENOSPC+unlink-EACCES" % k, [("write", k, 1, errno.ENOSPC, 0), ("unlink", 1, 1, errno.EACCES, 0)]))
        for j in (1, 2, 3):
            out.append(("rename-EXDEV+sendfile#%d-EIO" % j, [("rename", 1, 1, errno.EXDEV, 0), ("sendfile", j, 1, errno.EIO, 0)]))
            out.append(("rename-EXDEV+sendfile#%d-short" % j, [("rename", 1, 1, errno.EXDEV, 0), ("sendfile", j, 2, 0, 5)]))
            out.append(("rename-EXDEV+write#%d-ENOSPC(copy)" % (W + j), [("rename", 1, 1, errno.EXDEV, 0), ("write", W + j, 1, errno.ENOSPC, 0)]))
        out.append(("rename-EXDEV+open#2-EACCES", [("rename", 1, 1, errno.EXDEV, 0), ("open", 2, 1, errno.EACCES, 0)]))
        out.append(("rename-EXDEV+open#3-EACCES", [("rename", 1, 1, errno.EXDEV, 0), ("open", 3, 1, errno.EACCES, 0)]))
        out.append(("rename-EXDEV+unlink-EACCES", [("rename", 1, 1, errno.EXDEV, 0), ("unlink", 1, 1, errno.EACCES, 0)]))
        out.append(("rename-EACCES+unlink-EACCES", [("rename", 1, 1, errno.EACCES, 0), ("unlink", 1, 1, errno.EACCES, 0)]))
    else:
        out.append(("rename-EXDEV+sendfile#1-EIO", [("rename", 1, 1, errno.EXDEV, 0), ("sendfile", 1, 1, errno.EIO, 0)]))
        out.append(("rename-EXDEV+write#%d-ENOSPC(copy)" % (W + 1), [("rename", 1, 1, errno.EXDEV, 0), ("write", W + 1, 1, errno.ENOSPC, 0)]))
    return out


class Runner(object):
    def __init__(self, tier):
        from ..props import c13
        self.tier = tier
        self.lib = lib()
        self.c13 = c13
        self.docs = {}

    def doc(self, size, fmt, broken):
        key = (size, fmt, broken)
        if key not in self.docs:
            d = make_doc(size, fmt, broken)
            exp = None
            if not broken:
                buf = io.BytesIO()
                self.ser(d, fmt, buf)
                exp = buf.getvalue()
            self.docs[key] = (d, exp)
        return self.docs[key]

    def ser(self, d, fmt, dest):
        if fmt == "rdf":
            self.c13._reset_bnodes()
        d.serialize(dest, format=fmt)

    def one(self, size, fmt, name, pre, sched, broken=False, kind="str"):
        """returns (verdict dict)"""
        d, expected = self.doc(size, fmt, broken)
        sb = os.path.realpath(tempfile.mkdtemp(prefix="provmc_c17_"))
        old_cwd = os.getcwd()
        old_tmp = os.environ.get("TMPDIR")
        try:
            work = os.path.join(sb, "work")
            tmpd = os.path.join(sb, "tmp")
            os.makedirs(os.path.join(work, "sub"))
            os.makedirs(tmpd)
            os.environ["TMPDIR"] = tmpd
            tempfile.tempdir = None
            tempfile.gettempdir()  # tempfile probes the directory by writing a file: do it before arming
            if name != "ABS":
                # call history: the same relative name was written before, from another working directory
                decoy = os.path.join(sb, "decoy")
                os.makedirs(os.path.join(decoy, "sub"))
                os.chdir(decoy)
                try:
                    self.doc("small", "json", False)[0].serialize(name, format="json")
                except Exception:
                    pass
            os.chdir(work)
            dest_arg = os.path.join(work, "abs.dat") if name == "ABS" else name
            dest_rel = os.path.normpath(os.path.join("work", "abs.dat" if name == "ABS" else name))
            if name == "LINK":
                os.makedirs(os.path.join(work, "real"))
                with open(os.path.join(work, "real", "target.dat"), "wb") as f:
                    f.write(b"OLD TARGET " * 60)
                os.symlink(os.path.join("real", "target.dat"), os.path.join(work, "lnk.dat"))
                dest_arg, dest_rel, pre = "lnk.dat", os.path.join("work", "lnk.dat"), False
            if pre == "resaved" and not broken:
                # call history: this very document was saved to this very name before (no faults), and somebody else
                # has written the file since - the judged call finds foreign content like any other pre-existing file
                self.ser(d, fmt, dest_arg)
            if pre:
                with open(dest_arg, "wb") as f:
                    f.write(b"OLD CONTENT " * 50)
            before = snapshot(sb)
            self.lib.faultfs_reset(sb.encode())
            for op, nth, action, err, arg in sched:
                self.lib.faultfs_rule(OPS[op], nth, action, err, arg)
            exc = None
            if kind == "path":
                import pathlib
                dest_arg = pathlib.Path(dest_arg)
            elif kind == "bytes":
                dest_arg = os.fsencode(dest_arg)
            try:
                self.ser(d, fmt, dest_arg)
            except BaseException as e:
                exc = e
            counts = {k: self.lib.faultfs_count(v) for k, v in OPS.items()}
            self.lib.faultfs_reset(b"")
            after = snapshot(sb)
            v = {"counts": counts, "exception": None if exc is None else "%s: %s" % (type(exc).__name__, exc)}
            changed = {k for k in set(before) | set(after) if before.get(k) != after.get(k)}
            if exc is None:
                if broken:
                    v["problem"] = ("unserialisable-document-reported-as-written", "no exception")
                elif after.get(dest_rel) != expected:
                    got = after.get(dest_rel)
                    where = sorted(k for k in changed if k != dest_rel)
                    v["problem"] = ("named-file-wrong-after-success",
                                    "absent" if got is None else ("truncated" if isinstance(got, bytes) and expected.startswith(got) else "other-content"),
                                    {"written_elsewhere": where, "dest_len": None if got is None else len(got), "expected_len": len(expected)})
                elif changed - {dest_rel}:
                    v["problem"] = ("other-files-touched-on-success", ",".join(sorted(changed - {dest_rel}))[:60],
                                    {"changed": sorted(changed)})
            else:
                if not sched and not broken:
                    v["problem"] = ("failure-without-any-fault", type(exc).__name__, {"error": str(exc)[:200]})
                elif after.get(dest_rel) != before.get(dest_rel):
                    got = after.get(dest_rel)
                    v["problem"] = ("named-file-changed-by-failed-write",
                                    "gone" if got is None else ("truncated" if expected and expected.startswith(got) else "other-content"),
                                    {"dest_len": None if got is None else len(got),
                                     "old_len": None if before.get(dest_rel) is None else len(before.get(dest_rel))})
                leaked = sorted(k for k in changed if k != dest_rel)
                v["leaked"] = leaked
                if leaked and "problem" not in v and not any(r[0] == "unlink" for r in sched):
                    # nothing prevented the clean-up: the failed call must not leave anything behind
                    v["problem"] = ("file-left-behind-by-failed-write", "temp" if ".prov-tmp" in leaked[0] else "other",
                                    {"left": leaked[:3]})
            return v
        finally:
            os.chdir(old_cwd)
            if old_tmp is None:
                os.environ.pop("TMPDIR", None)
            else:
                os.environ["TMPDIR"] = old_tmp
            tempfile.tempdir = None
            shutil.rmtree(sb, ignore_errors=True)


_R = None


def _work(item):
    global _R
    import collections
    import logging
    logging.disable(logging.CRITICAL)
    if _R is None:
        _R = Runner(item[0])
    tier, size, fmt, name, pre, kind = item
    res = {"viol": [], "outcomes": collections.Counter(), "n": 0, "sample": None}
    base = _R.one(size, fmt, name, pre, [], kind=kind)
    scheds = schedules(tier, base["counts"]) if base["counts"]["write"] else [("none", [])]
    for label, sched in scheds:
        v = _R.one(size, fmt, name, pre, sched, kind=kind)
        res["n"] += 1
        case = {"size": size, "format": fmt, "name": name, "name_kind": kind, "preexisting": pre, "schedule": label, "rules": sched}
        if "problem" in v:
            res["viol"].append((v["problem"], case, v))
        else:
            res["outcomes"]["%s:%s" % ("failed-cleanly" if v["exception"] else "written", label.split("#")[0].split("+")[0])] += 1
            if v.get("leaked"):
                res["outcomes"]["temp-file-leaked-after-failure(not judged)"] += 1
        if res["sample"] is None and sched:
            res["sample"] = {"case": case, "exception": v["exception"], "syscalls": v["counts"]}
    # serialisation itself fails (0 syscall deviations)
    if fmt in ("json", "xml") and size == "small":
        v = _R.one(size, fmt, name, pre, [], broken=True, kind=kind)
        res["n"] += 1
        case = {"size": size, "format": fmt, "name": name, "name_kind": kind, "preexisting": pre, "schedule": "serialiser-raises", "rules": []}
        if "problem" in v:
            res["viol"].append((v["problem"], case, v))
        else:
            res["outcomes"]["failed-cleanly:serialiser-raises"] += 1
    return res


def real_main(tier, seed):
    import collections
    import multiprocessing
    import time
    t0 = time.time()
    sizes = ["small", "20kB"] + (["200kB"] if tier == "thorough" else [])
    items = [(tier, s, f, n, p, k) for s in sizes for f in ("json", "xml", "rdf", "provn") for n in NAMES for p in (False, True, "resaved")
             for k in NAME_KINDS.get(n, ("str",))]
    ctx = multiprocessing.get_context("fork")
    viol = {}
    outcomes = collections.Counter()
    total = 0
    samples = []
    with ctx.Pool(int(os.environ.get("PROVMC_PROCS", "16"))) as pool:
        for res in pool.imap(_work, items, chunksize=2):
            total += res["n"]
            outcomes.update(res["outcomes"])
            if res["sample"] and len(samples) < 2:
                samples.append(res["sample"])
            for prob, case, v in res["viol"]:
                name_class = case["name"] if case["name"] in ("a#b.dat", "a?b.dat", "a;b.dat", "c:d.dat", "r%20x.dat") else "plain-name"
                if case.get("name_kind", "str") != "str":
                    name_class += "(%s)" % case["name_kind"]
                sig = "%s:%s:%s" % (prob[1], name_class, case["schedule"].split("#")[0] if case["schedule"] == "none" or "EXDEV" in case["schedule"] else "fault")
                key = (prob[0], sig)
                if key not in viol:
                    viol[key] = [0, case, v, prob]
                viol[key][0] += 1
    vs = []
    for (clause, sig), (n, case, v, prob) in sorted(viol.items()):
        vs.append({"clause": clause, "sig": sig, "count": n,
                   "detail": {"case": case, "exception": v["exception"], "syscalls": v["counts"], "info": prob[2] if len(prob) > 2 else None},
                   "history": ["c17", case["size"], case["format"], case["name"], case["preexisting"], case["schedule"],
                               [list(r) for r in case["rules"]], case.get("name_kind", "str")],
                   "snippet": "d.serialize(%r, format=%r)  # with faults %r injected at the libc boundary" % (
                       case["name"], case["format"], case["rules"])})
    cov = {
        "evaluations": total, "distinct_nontrivial": total - outcomes.get("written:none", 0),
        "states": total, "transitions": total, "traces_validated_against_impl": total,
        "rule": ("full product of %d formats x %d document sizes x %d destination names x absent / pre-existing / pre-existing after this document had been saved there before x every "
                 "fault schedule with <= %d deviation(s) from the fault-free system-call sequence (the k-th write fails "
                 "or is short for every k, rename fails / answers EXDEV, the copy fallback's steps fail, unlink fails, "
                 "the serialiser raises); a case is distinct by (format, size, name, pre-existing, schedule); "
                 "non-trivial = at least one deviation injected" % (4, len(sizes), len(NAMES), 2 if tier == "thorough" else 1)),
        "samples": samples, "exhaustive": True, "outcomes": dict(outcomes),
        "deviation_bound_completed": 2 if tier == "thorough" else 1,
        "destination_names": NAMES, "name_kinds": NAME_KINDS,
    }
    return {"property": "C17", "coverage": cov, "violations": vs,
            "assumptions": ["libc interposition (LD_PRELOAD) sees every write/rename/sendfile/open/unlink CPython issues "
                            "for paths under the sandbox; crash = the failing call returns an error to the library"],
            "wall_s": round(time.time() - t0, 2)}


def replay(item, tier, seed):
    ensure_shim()
    h = item.get("history", [])
    if SO not in os.environ.get("LD_PRELOAD", ""):
        import json
        fd, outp = tempfile.mkstemp(prefix="provmc_c17_", suffix=".json")
        os.close(fd)
        fd2, inp = tempfile.mkstemp(prefix="provmc_c17_", suffix=".json")
        with os.fdopen(fd2, "w") as f:
            json.dump(item, f)
        env = dict(os.environ)
        env["LD_PRELOAD"] = SO
        try:
            subprocess.check_call([sys.executable, "-B", "-m", "provmc.props.c17", "--replay", inp, outp], env=env, cwd=HERE)
            with open(outp) as f:
                return json.load(f)
        finally:
            os.unlink(outp)
            os.unlink(inp)
    r = Runner(tier)
    _, size, fmt, name, pre, label, rules = h[:7]
    kind = h[7] if len(h) > 7 else "str"
    v = r.one(size, fmt, name, pre, [tuple(x) for x in rules], broken=(label == "serialiser-raises"), kind=kind)
    vs = []
    if "problem" in v:
        vs.append({"clause": v["problem"][0], "sig": item.get("sig", v["problem"][1]), "count": 1,
                   "detail": {"exception": v["exception"], "syscalls": v["counts"]}, "history": h})
    return {"property": "C17", "coverage": {"evaluations": 1, "distinct_nontrivial": 2, "rule": "replay", "samples": [h]},
            "violations": vs, "wall_s": 0}


if __name__ == "__main__":
    import json
    if sys.argv[1] == "--replay":
        with open(sys.argv[2]) as f:
            it = json.load(f)
        res = replay(it, "quick", 0)
        with open(sys.argv[3], "w") as f:
            json.dump(res, f, default=str)
    else:
        res = real_main(sys.argv[1], int(sys.argv[2]))
        with open(sys.argv[3], "w") as f:
            json.dump(res, f, default=str)
