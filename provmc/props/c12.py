"""C12 - derived documents and copied records share no mutable state with their sources.

For every state of a small document alphabet (bundle, default namespace, repeated identifier)
x every deriving operation x every follow-up mutation x side mutated (result / source)
[thorough: then a second mutation on the other side], the untouched side's strict ordered
content and namespace observation must be identical before and after.
"""
from prov.identifier import Namespace, QualifiedName
from prov.model import ProvDocument

from .. import explore, machine, observe, spec
from prov.model import ProvException
from ..alphabets import S, Q, BARE, URI

MM = "http://mm/"


def alphabet():
    x, xd = ("A", "x", Q("ex")), ("A", "x", BARE)
    return [
        ("ns", "D", "ex", "A"), ("def", "D", "A"),
        ("bun", "B1", ("C", "b1", Q("bn"))),
        ("ns", "B1", "ex", "B"), ("def", "B1", "B"),
        ("el", "D", "entity", x), ("el", "D", "entity", xd), ("el", "D", "agent", x),
        ("el", "B1", "entity", x), ("el", "B1", "entity", ("B", "y", BARE)),
        ("rel", "D", "generation", ("A", "g", Q("ex")), (x, ("A", "a", Q("ex")), "t1")),
        ("rel", "B1", "generation", None, (x, None, None)),
        ("at", ("A", "k", Q("ex")), "s_a"),
        # a second URI under the prefix ex: the document holds a renamed prefix (ex_1)
        ("el", "D", "entity", ("B", "z", Q("ex"))),
        # two records of one identifier that contradict each other, inside the bundle: it cannot be unified
        ("el", "B1", "activity", x, ("t1", None)), ("el", "B1", "activity", x, ("t2", None)),
    ]


def full_obs(doc):
    return (observe.dobs_ordered(doc), observe.nsobs(doc))


def all_records(doc):
    out = list(doc.get_records())
    for b in doc.bundles:
        out.extend(b.get_records())
    return out


def mm(local):
    return QualifiedName(Namespace("mm", MM), local)


# deriving operations: doc -> list of (label, result-kind, result, source-kind, source-object)
def derive(d, only=None):
    """only=k: build the k-th derivation alone (the others are place-holders with result None), so that nothing but
    that one operation has run in the process when the case is judged (pristine cases, see main)"""
    if only is not None:
        return _derive_lazy(d, only)
    res = []
    recs = all_records(d)
    for i, r in enumerate(recs):
        res.append(("copy[%d]" % i, "rec", r.copy(), "rec", r))
    for i, r in enumerate(recs):
        d2 = ProvDocument()
        res.append(("add_record[%d]" % i, "rec", d2.add_record(r), "rec", r))
    # add_record of a record that already belongs to the receiving container, and of a copy made for it
    for i, r in enumerate(recs[:2]):
        res.append(("add_record-own[%d]" % i, "rec", r.bundle.add_record(r), "rec", r))
    for i, r in enumerate(recs[:1]):
        c = r.copy()
        res.append(("add_record-own-copy[%d]" % i, "rec", r.bundle.add_record(c), "rec", c))
    res.append(("ProvDocument(records)", "doc", ProvDocument(records=d.get_records()), "doc", d))
    d2 = ProvDocument()
    d2.update(d)
    res.append(("update", "doc", d2, "doc", d))
    if not d.has_bundles():
        d2 = ProvDocument()
        d2.add_bundle(d, mm("asbundle"))
        res.append(("add_bundle(document)", "doc", d2, "doc", d))
    # (a document or bundle holding contradicting records of one identifier cannot be unified: nothing is derived
    # then, the other deriving operations still are)
    try:
        res.append(("unified", "doc", d.unified(), "doc", d))
    except ProvException:
        pass
    for j, b in enumerate(d.bundles):
        try:
            res.append(("bundle[%d].unified" % j, "bundle", b.unified(), "doc", d))
        except ProvException:
            pass
    if d.has_bundles():
        res.append(("flattened", "doc", d.flattened(), "doc", d))
    for fmt in ("json", "xml"):
        try:
            res.append(("reload-" + fmt, "doc", ProvDocument.deserialize(content=d.serialize(format=fmt), format=fmt),
                        "doc", d))
        except Exception:
            pass
    return res


def _derive_lazy(d, only):
    res = []

    def add(label, rk, thunk, sk, src):
        r = None
        if len(res) == only:
            try:
                r = thunk()
            except ProvException:
                r = None
        res.append((label, rk, r, sk, src))

    def _update():
        d2 = ProvDocument()
        d2.update(d)
        return d2

    def _addb():
        d2 = ProvDocument()
        d2.add_bundle(d, mm("asbundle"))
        return d2

    add("ProvDocument(records)", "doc", lambda: ProvDocument(records=d.get_records()), "doc", d)
    add("update", "doc", _update, "doc", d)
    if not d.has_bundles():
        add("add_bundle(document)", "doc", _addb, "doc", d)
    add("unified", "doc", lambda: d.unified(), "doc", d)
    for j, b in enumerate(d.bundles):
        add("bundle[%d].unified" % j, "bundle", (lambda b=b: b.unified()), "doc", d)
    if d.has_bundles():
        add("flattened", "doc", lambda: d.flattened(), "doc", d)
    for fmt in ("json", "xml"):
        add("reload-" + fmt, "doc", (lambda fmt=fmt: ProvDocument.deserialize(content=d.serialize(format=fmt), format=fmt)), "doc", d)
    return res


def mutations(kind, obj):
    """list of (label, thunk) mutating obj"""
    ms = []
    if kind == "rec":
        ms.append(("add-attribute", lambda: obj.add_attributes([(mm("k2"), "mut")])))
        ms.append(("add-type", lambda: obj.add_asserted_type(mm("T"))))
        ms.append(("add-value-to-existing-attribute", lambda: _second_value(obj)))
        return ms
    if kind == "bundle":
        b = obj
        ms.append(("add-record", lambda: b.entity(mm("new"))))
        # names given as strings: resolved through whatever scope the bundle is linked to
        ms.append(("add-record-string-ex", lambda: b.entity("ex:strnew")))
        ms.append(("add-record-bare-string", lambda: b.entity("barenew")))
        # a prefix the library pre-binds without listing it until it is used (xsi), given as a string
        ms.append(("add-record-string-xsi", lambda: b.entity("xsi:strnew")))
        ms.append(("add_namespace", lambda: b.add_namespace("mm", MM)))
        ms.append(("set_default_namespace", lambda: b.set_default_namespace(MM)))
        for i, r in enumerate(b.get_records()):
            ms.append(("add-attribute[%d]" % i, (lambda r=r: r.add_attributes([(mm("k2"), "mut")]))))
        return ms
    doc = obj
    for i, r in enumerate(all_records(doc)):
        ms.append(("add-attribute[%d]" % i, (lambda r=r: r.add_attributes([(mm("k2"), "mut")]))))
        ms.append(("add-value-to-existing-attribute[%d]" % i, (lambda r=r: _second_value(r))))
    ms.append(("add-record", lambda: doc.entity(mm("new"))))
    ms.append(("add-record-default-ns", lambda: doc.entity(QualifiedName(Namespace("", MM), "new"))))
    ms.append(("add-record-string-xsi", lambda: doc.entity("xsi:strnew")))
    ms.append(("add-record-string-xsd", lambda: doc.entity("xsd:strnew")))
    ms.append(("add_namespace", lambda: doc.add_namespace("mm", MM)))
    ms.append(("add_namespace-clash", lambda: doc.add_namespace("ex", MM)))
    ms.append(("set_default_namespace", lambda: doc.set_default_namespace(MM)))
    ms.append(("bundle()", lambda: doc.bundle(mm("newb"))))
    for j, b in enumerate(doc.bundles):
        ms.append(("bundle[%d].add-record" % j, (lambda b=b: b.entity(mm("new")))))
        ms.append(("bundle[%d].add_namespace" % j, (lambda b=b: b.add_namespace("mm", MM))))
        ms.append(("bundle[%d].set_default_namespace" % j, (lambda b=b: b.set_default_namespace(MM))))
    return ms


def _second_value(rec):
    """a further value under every non-formal attribute name the record already carries
    (the container of values of that name exists already - the interesting case for sharing)"""
    names = [a for a, _ in rec.extra_attributes]
    rec.add_attributes([(a, "second-value") for a in dict.fromkeys(names)] or [(mm("k2"), "mut")])
    rec.add_asserted_type(mm("T2"))


PROBE_NAMES = ("mm:probe", "ex:probe", "probe", "zz7:probe", "newb:probe")


def resolutions(kind, obj):
    """what each container of obj makes of names given as strings (URI, None, or the exception's class)"""
    conts = [obj] if kind == "bundle" else [obj] + list(obj.bundles)
    res = []
    for c in conts:
        for n in PROBE_NAMES:
            try:
                q = c.valid_qualified_name(n)
                res.append(None if q is None else q.uri)
            except Exception as e:
                res.append("raises:" + type(e).__name__)
    return tuple(res)


def obs_of(kind, obj):
    if kind == "rec":
        return observe.robs(obj)
    if kind == "bundle":
        ns = obj._namespaces
        return (tuple(observe.records_obs(obj)), tuple(sorted((n.prefix, n.uri) for n in obj.namespaces)),
                None if ns.get_default_namespace() is None else ns.get_default_namespace().uri)
    return full_obs(obj)


class C12(spec.Spec):
    prop = "C12"

    def __init__(self, tier, params=None):
        super().__init__(tier, params)
        self.alphabet = alphabet()
        self.two = tier == "thorough"

    def state_case(self, hist, out):
        """all deriving ops x mutations x sides for the state reached by hist"""
        probe = self.fresh(hist).doc
        if not all_records(probe):
            out.filters["state-without-records"] += 1
            return
        try:
            n_der = len(derive(probe))
        except Exception as e:
            out.filters["derive-raised:%s" % type(e).__name__] += 1
            return
        for di in range(n_der):
            for side in ("result", "source"):
                # how many mutations does this side offer?
                d = self.fresh(hist).doc
                label, rk, r, sk, s = derive(d)[di]
                nm = len(mutations(rk, r) if side == "result" else mutations(sk, s))
                for mi in range(nm):
                    self.one(hist, di, side, mi, None, out)
                    if self.two and len(hist) <= 3:
                        # (a second mutation on the other side: on every state to depth 3)
                        d = self.fresh(hist).doc
                        label, rk, r, sk, s = derive(d)[di]
                        nm2 = len(mutations(sk, s) if side == "result" else mutations(rk, r))
                        for mj in range(nm2):
                            self.one(hist, di, side, mi, mj, out)

    def one(self, hist, di, side, mi, mj, out):
        d = self.fresh(hist).doc
        if mj == "pristine":
            # (mi is the mutation's label here; only derivation di has run in this process)
            lst = derive(d, only=di)
            if di >= len(lst):
                out.filters["pristine:no-such-derivation-slot"] += 1
                return
            label, rk, r, sk, s = lst[di]
            if r is None:
                out.filters["pristine:derivation-raised"] += 1
                return
            labels = [m[0] for m in (mutations(rk, r) if side == "result" else mutations(sk, s))]
            if mi not in labels:
                out.filters["pristine:mutation-not-offered"] += 1
                return
            mlab, mi, mj = mi, labels.index(mi), None
            pristine = True
            hh_override = ("case", self.ops(hist), label, side, mlab, "pristine")
        else:
            label, rk, r, sk, s = derive(d)[di]
            hh_override = None
            pristine = False
        # the whole source document is observed even when the derived thing is one record
        src_whole = d
        hh = hh_override or ("case", self.ops(hist), label, side, mi, mj)
        out.evaluations += 1
        before_r, before_s, before_d = obs_of(rk, r), obs_of(sk, s), full_obs(src_whole)
        if side == "result":
            mlabel, thunk = mutations(rk, r)[mi]
        else:
            mlabel, thunk = mutations(sk, s)[mi]
        try:
            thunk()
        except Exception as e:
            out.filters["mutation-raised:%s" % type(e).__name__] += 1
            return
        out.transitions += 1
        # a record copy stays a member of the source's container by design (copy() passes the
        # same bundle), so a name used on the copy is registered there: for 'copy' only the
        # content of the source is compared, not its namespace declarations
        whole = (lambda: full_obs(src_whole)[0]) if label.startswith("copy") else (lambda: full_obs(src_whole))
        if label.startswith("add_record-own"):
            # result and source are two records of one container: only the two records are compared
            whole = lambda: None
        before_d = whole() if label.startswith(("copy", "add_record-own")) else before_d
        if side == "result":
            if obs_of(sk, s) != before_s or whole() != before_d:
                self.report(out, "source-changed-by-mutating-result", label, mlabel, before_d, whole(), hh)
                return
        else:
            if obs_of(rk, r) != before_r:
                self.report(out, "result-changed-by-mutating-source", label, mlabel, before_r, obs_of(rk, r), hh)
                return
        out.outcomes["independent:%s" % label.split("[")[0]] += 1
        out.nontrivial += 1
        if mj is None:
            # how the untouched side resolves names given as strings is part of its namespace declarations: it must
            # resolve them as its twin does (same history, same derivation, no mutation on either side).  Asked last,
            # and of both worlds alike, because a resolution may itself register a namespace.
            ok, oo = (sk, s) if side == "result" else (rk, r)
            if ok != "rec":
                d_t = self.fresh(hist).doc
                _, rk_t, r_t, sk_t, s_t = derive(d_t, only=di if pristine else None)[di]
                want = resolutions(ok, s_t if side == "result" else r_t)
                got = resolutions(ok, oo)
                if got != want:
                    self.report(out, "source-changed-by-mutating-result" if side == "result" else "result-changed-by-mutating-source",
                                label, mlabel + "|string-names-resolve-differently", want, got, hh)
                    return
                out.outcomes["string-names-resolve-as-in-the-twin"] += 1
        if mj is not None:
            # second mutation on the other side
            b_r, b_s, b_d = obs_of(rk, r), obs_of(sk, s), whole()
            if side == "result":
                mlabel2, thunk2 = mutations(sk, s)[mj]
            else:
                mlabel2, thunk2 = mutations(rk, r)[mj]
            try:
                thunk2()
            except Exception as e:
                out.filters["mutation2-raised:%s" % type(e).__name__] += 1
                return
            out.transitions += 1
            if side == "result":
                if obs_of(rk, r) != b_r:
                    self.report(out, "result-changed-by-mutating-source", label, mlabel + "+" + mlabel2, b_r, obs_of(rk, r), hh)
            else:
                if obs_of(sk, s) != b_s or whole() != b_d:
                    self.report(out, "source-changed-by-mutating-result", label, mlabel + "+" + mlabel2, b_d, whole(), hh)
        if len(out.samples) < 1:
            out.samples.append({"source": self.ops(hist), "derive": label, "mutate": side, "mutation": mlabel})

    def report(self, out, clause, label, mlabel, before, after, hh):
        import re
        out.violation(clause, "%s|%s" % (re.sub(r"\[\d+\]", "[i]", label), re.sub(r"\[\d+\]", "[i]", mlabel)),
                      {"before": repr(before)[:700], "after": repr(after)[:700]}, hh)

    def ops(self, hist):
        if hist and hist[0] == "case":
            return list(hist)
        return spec.Spec.ops(self, hist)

    def render(self, hist):
        if hist and hist[0] == "case":
            import ast
            ops = [ast.literal_eval(x) for x in hist[1]]
            return (machine.render(ops, range(len(ops)), self.values) +
                    "\n# derive: %s ; mutate the %s (mutation #%s%s); observe the other side" % (
                        hist[2], hist[3], hist[4], "" if hist[5] is None else ", then #%s on the other" % hist[5]))
        return spec.Spec.render(self, hist)


PRISTINE_MUTATIONS = ("add-record-string-xsi", "add-record-string-xsd", "add-record-bare-string", "add-record-string-ex")


def _pristine_task(item):
    tier, hist, di, side, mlabel = item
    sp = make_spec(tier, {})
    out = explore.Out()
    try:
        sp.one(hist, di, side, mlabel, "pristine", out)
    except (machine.NotEnabled, machine.NonConformance):
        out.filters["pristine:history-not-enabled"] += 1
    return out


def _pristine_enum(tier):
    import itertools
    sp = make_spec(tier, {})
    n = len(sp.alphabet)
    res = []
    for k in (1, 2):
        for h in itertools.product(range(n), repeat=k):
            try:
                d = sp.fresh(h).doc
            except (machine.NotEnabled, machine.NonConformance):
                continue
            if all_records(d):
                res.append((h, len(derive(d, only=-1))))
    return res


def pristine_stage(tier):
    """runs before anything else in this process; every case in its own forked child (maxtasksperchild=1)"""
    import itertools
    import multiprocessing
    import os
    ctx = multiprocessing.get_context("fork")
    # (which histories are enabled, and how many derivation slots each has, is found out in a child as well)
    with ctx.Pool(1, maxtasksperchild=1) as pool:
        enabled = pool.apply(_pristine_enum, (tier,))
    items = [(tier, h, di, side, ml) for h, nd in enabled for di in range(nd) for side in ("result", "source") for ml in PRISTINE_MUTATIONS]
    total = explore.Out()
    with ctx.Pool(int(os.environ.get("PROVMC_PROCS", "16")), maxtasksperchild=1) as pool:
        for o in pool.imap_unordered(_pristine_task, items, chunksize=1):
            total.merge(o)
    return total, len(items)


def make_spec(tier, params):
    return C12(tier, params)


def main(tier, seed):
    import time
    from .. import runner
    t0 = time.time()
    sp = make_spec(tier, {})
    depth = {"quick": 4, "thorough": 4}[tier]
    pristine_out, n_pristine = pristine_stage(tier)
    hists = []
    out, stats = explore.bfs(__name__, tier, {}, depth, collect=hists)
    out.merge(pristine_out)
    if tier == "quick":
        # every state to depth 3, and hand-picked deeper ones (renamed prefix + bundle with own declarations)
        al = sp.alphabet
        x, xd = ("A", "x", Q("ex")), ("A", "x", BARE)
        picks = [
            [("ns", "D", "ex", "A"), ("el", "D", "entity", x), ("el", "D", "entity", ("B", "z", Q("ex"))), ("at", ("A", "k", Q("ex")), "s_a")],
            [("ns", "D", "ex", "A"), ("bun", "B1", ("C", "b1", Q("bn"))), ("el", "B1", "entity", x), ("ns", "B1", "ex", "B"),
             ("rel", "B1", "generation", None, (x, None, None))],
            [("def", "D", "A"), ("bun", "B1", ("C", "b1", Q("bn"))), ("def", "B1", "B"), ("el", "B1", "entity", ("B", "y", BARE)),
             ("el", "D", "entity", xd)],
            [("ns", "D", "ex", "A"), ("el", "D", "entity", ("B", "z", Q("ex"))), ("bun", "B1", ("C", "b1", Q("bn"))),
             ("el", "B1", "entity", x), ("at", ("A", "k", Q("ex")), "s_a")],
            [("ns", "D", "ex", "A"), ("el", "D", "entity", x), ("el", "D", "agent", x),
             ("rel", "D", "generation", ("A", "g", Q("ex")), (x, ("A", "a", Q("ex")), "t1")), ("at", ("A", "k", Q("ex")), "s_a")],
        ]
        hists = [h for h in hists if len(h) <= 3] + [tuple(al.index(o) for o in pk) for pk in picks]
    out2 = explore.pmap(__name__, tier, {}, "state_case", hists, chunk=4)
    out.merge(out2)
    out.evaluations -= len(hists)
    out.conform = out.nontrivial
    vs, nsig = runner.violations_json(sp, out)
    cov = runner.coverage_from(out, stats, sp, (
        "%d states of a 16-letter alphabet (BFS to depth %d; quick: every state to depth 3 and five hand-picked deeper ones) x "
        "every deriving operation (copy, add_record into another / the own container, constructor, update, "
        "add_bundle(document), unified of the document and of each bundle, flattened, JSON/XML reload) x every mutation x side%s; a case is "
        "distinct by (state, derivation, side, mutation[s]); non-trivial = the mutation was applied and the other "
        "side compared; plus %d pristine cases: every history of <= 2 letters x derivation x side x each mutation that names a record "
        "by a string, each in a freshly forked process in which nothing but that history, that one derivation and that one "
        "mutation has run (state the library keeps per process cannot have been touched by an earlier case)" % (len(hists), depth, " x second mutation on the other side (states to depth 3)" if tier == "thorough" else "", n_pristine)))
    return {"property": "C12", "coverage": cov, "violations": vs, "signatures": nsig,
            "wall_s": round(time.time() - t0, 2)}


def replay(item, tier, seed):
    import ast
    from .. import runner
    sp = make_spec(tier, {})
    out = explore.Out()
    h = item.get("history", [])
    if h and h[0] == "case":
        hist = tuple(ast.literal_eval(x) for x in h[1])
        d = sp.fresh(hist).doc
        if h[5] == "pristine":
            labels = [x[0] for x in derive(d, only=-1)]
            if h[2] in labels:
                sp.one(hist, labels.index(h[2]), h[3], h[4], "pristine", out)
            labels = []
        else:
            labels = [x[0] for x in derive(d)]
        if h[5] == "pristine":
            pass
        elif h[2] in labels:
            sp.one(hist, labels.index(h[2]), h[3], h[4], h[5], out)
        else:
            # (on this tree the operation derives nothing from this state - it raises: nothing to compare)
            out.filters["derivation-not-available-on-this-tree"] += 1
    vs, _ = runner.violations_json(sp, out)
    return {"property": "C12", "coverage": {"states": 1, "transitions": 1, "traces_validated_against_impl": 1,
            "samples": [{"replayed": h}]}, "violations": vs, "wall_s": 0}
