"""C04 - document equality is an equivalence that coincides with content equivalence.

Base documents: every state of the document-history alphabet to depth d, plus every
single-record shape.  For each base a *family* is built: the base object itself, all its
one-step content-preserving variants (every rotation / reversal of the record list, rebuild
under renamed prefixes, duplication of each record, rebuild from records, JSON / XML reload)
and all its one-step content-changing variants (per record: change / drop / add identifier,
swap kind within an equal-signature group, per attribute: change value, remove, add; drop /
add a record; drop / add / rename a bundle; move a record between containers), each realised
through the public API.  On the whole family, for every ordered pair:
   (x == y)  <=>  set-observation(x) == set-observation(y);  (x == y) == (y == x);
   (x != y) == not (x == y);  x == x;  transitivity over all triples;
and for all pairs of records of the family: r == r' <=> same strict observation (as a set of
attribute pairs), symmetric, and r == r' => hash(r) == hash(r').
scripts/prov-compare is run as a subprocess on a fixed subset, both argument orders.
"""
import itertools
import os
import subprocess
import tempfile

from prov.model import ProvDocument

from .. import alphabets, explore, machine, observe, rebuild, spec, sweeps
from ..machine import PROV_URI

SWAP = [
    {PROV_URI + "Entity", PROV_URI + "Agent"},
    {PROV_URI + "Generation", PROV_URI + "Invalidation", PROV_URI + "Usage"},
    {PROV_URI + "Start", PROV_URI + "End"},
    {PROV_URI + "Specialization", PROV_URI + "Alternate", PROV_URI + "Mention"},
]


def change_value(v):
    k = v[0]
    if k == "str":
        return ("str", v[1] + "~")
    if k == "int":
        return ("int", v[1] + 5)
    if k == "float":
        return ("float", repr(float(v[1]) + 0.5))
    if k == "bool":
        return ("str", "changed")
    if k == "dt":
        return ("dt", "1999-01-01T00:00:00", None)
    if k == "qn":
        return ("qn", v[1] + "_other")
    if k == "uri":
        return ("uri", v[1] + "_other")
    if k == "lit":
        return ("lit", v[1] + "~", v[2], v[3])
    return None


def change_kind(v):
    """the same text as a value of another kind (only kinds the library's == is able to tell apart:
    it cannot tell 1 from True or 1.0, see C01's statement)"""
    k = v[0]
    if k == "qn" and not v[1].startswith(PROV_URI):
        return [("uri", v[1]), ("str", v[1])]
    if k == "uri":
        return [("str", v[1])] + ([("qn", v[1])] if v[1].startswith("http://") and not v[1].endswith("/") else [])
    if k == "str" and v[1]:
        return [("lit", v[1], "http://a/dt", None), ("lit", v[1], PROV_URI + "InternationalizedString", "en")]
    if k == "int":
        return [("str", str(v[1]))]
    if k == "lit" and v[3] is None:
        return [("str", v[1])]
    if k == "lit":
        return [("str", v[1]), ("lit", v[1], v[2], v[3] + "-x")]
    return []


def variants(mdoc):
    """yield (label, expected 'same'|'diff', model document)"""
    top, bundles = mdoc
    conts = [("", tuple(top))] + [(u, tuple(rs)) for u, rs in bundles]

    def assemble(cs):
        return (tuple(cs[0][1]), tuple((u, tuple(rs)) for u, rs in cs[1:]))

    yield "rebuilt", "same", mdoc
    for ci, (u, rs) in enumerate(conts):
        n = len(rs)
        for k in range(1, n):
            cs = list(conts)
            cs[ci] = (u, rs[k:] + rs[:k])
            yield "rotate[%d,%d]" % (ci, k), "same", assemble(cs)
        if n > 2:
            cs = list(conts)
            cs[ci] = (u, tuple(reversed(rs)))
            yield "reverse[%d]" % ci, "same", assemble(cs)
        for i in range(n):
            cs = list(conts)
            cs[ci] = (u, rs[:i] + (rs[i],) + rs[i:])
            yield "duplicate[%d,%d]" % (ci, i), "same", assemble(cs)
    if len(conts) > 2:
        yield "bundles-reordered", "same", assemble([conts[0]] + list(reversed(conts[1:])))
        if conts[1][1] != conts[2][1]:
            # the record lists of the first two bundles exchanged (identifiers stay)
            yield "bundle-contents-exchanged", "diff", assemble(
                [conts[0], (conts[1][0], conts[2][1]), (conts[2][0], conts[1][1])] + conts[3:])
    # content-changing edits
    for ci, (u, rs) in enumerate(conts):
        for i, (t, ident, attrs) in enumerate(rs):
            def put(newrec):
                if newrec is not None:
                    newrec = (newrec[0], newrec[1], tuple(sorted(newrec[2], key=repr)))
                cs = list(conts)
                cs[ci] = (u, rs[:i] + ((newrec,) if newrec is not None else ()) + rs[i + 1:])
                return assemble(cs)
            element = t in (PROV_URI + "Entity", PROV_URI + "Agent", PROV_URI + "Activity")
            if ident is not None:
                yield "change-id[%d,%d]" % (ci, i), "diff", put((t, ident + "_other", attrs))
                if not element:
                    yield "drop-id[%d,%d]" % (ci, i), "diff", put((t, None, attrs))
            else:
                yield "add-id[%d,%d]" % (ci, i), "diff", put((t, "http://a/added_id", attrs))
            for grp in SWAP:
                if t in grp:
                    for t2 in sorted(grp - {t}):
                        yield "swap-type[%d,%d]" % (ci, i), "diff", put((t2, ident, attrs))
            for j, (a, v) in enumerate(attrs):
                nv = change_value(v)
                if nv is not None and (a, nv) not in attrs:
                    yield "change-value[%d,%d,%d]" % (ci, i, j), "diff", put((t, ident, attrs[:j] + ((a, nv),) + attrs[j + 1:]))
                for nk in change_kind(v):
                    if (a, nk) not in attrs and not (a.startswith(PROV_URI) and a[len(PROV_URI):] not in ("type", "label", "value", "location", "role")):
                        yield "change-kind[%d,%d,%d]%s" % (ci, i, j, nk[0]), "diff", put((t, ident, attrs[:j] + ((a, nk),) + attrs[j + 1:]))
                yield "remove-attr[%d,%d,%d]" % (ci, i, j), "diff", put((t, ident, attrs[:j] + attrs[j + 1:]))
                if not a.startswith(PROV_URI):
                    yield "rename-attr[%d,%d,%d]" % (ci, i, j), "diff", put(
                        (t, ident, attrs[:j] + (("http://a/renamed_attr", v),) + attrs[j + 1:]))
            yield "add-attr[%d,%d]" % (ci, i), "diff", put((t, ident, attrs + (("http://a/added", ("str", "added")),)))
            if rs.count(rs[i]) == 1:
                yield "drop-record[%d,%d]" % (ci, i), "diff", put(None)
            # move to another container
            for cj in range(len(conts)):
                if cj != ci and rs.count(rs[i]) == 1 and rs[i] not in conts[cj][1]:
                    cs = list(conts)
                    cs[ci] = (u, rs[:i] + rs[i + 1:])
                    cs[cj] = (conts[cj][0], conts[cj][1] + (rs[i],))
                    yield "move-record[%d,%d->%d]" % (ci, i, cj), "diff", assemble(cs)
        cs = list(conts)
        new = (PROV_URI + "Entity", "http://a/added_record", ())
        if new not in rs:
            cs[ci] = (u, rs + (new,))
            yield "add-record[%d]" % ci, "diff", assemble(cs)
    for ci in range(1, len(conts)):
        if conts[ci][1]:
            yield "drop-bundle[%d]" % ci, "diff", assemble(conts[:ci] + conts[ci + 1:])
            cs = list(conts)
            cs[ci] = (conts[ci][0] + "_other", conts[ci][1])
            yield "rename-bundle[%d]" % ci, "diff", assemble(cs)
    yield "add-bundle", "diff", assemble(conts + [("http://a/added_bundle", ((PROV_URI + "Entity", "http://a/in_added", ()),))])


def setobs_rec(r):
    t, i, attrs = observe.robs(r)
    return (t, i, frozenset(attrs))


class C04(spec.Spec):
    prop = "C04"

    def __init__(self, tier, params=None):
        super().__init__(tier, params)
        self.alphabet = alphabets.doc_history_alphabet(tier)

    def family_case(self, item, out):
        kind, h = item
        if len(h) == 1 and isinstance(h[0], tuple) and h[0][0] == "mdoc":
            # a base given as a model-level document (shapes the operation alphabet has no letter for: a membership
            # record holding several members), realised through new_record like every variant
            try:
                base = rebuild.rebuild(h[0][1])
            except Exception as e:
                out.filters["mdoc-base-not-buildable:%s" % type(e).__name__] += 1
                return
            if observe.dobs_ordered(base) != h[0][1]:
                out.filters["mdoc-base-built-differently"] += 1
                return
            hh = ("family", [repr(h[0])])
        else:
            try:
                base = self.fresh(h).doc
            except (machine.NotEnabled, machine.NonConformance):
                out.filters["base-not-buildable"] += 1
                return
            hh = ("family", self.ops(h))
        mdoc = observe.dobs_ordered(base)
        fam = [("base", "same", base)]
        for fmt in ("json", "xml"):
            try:
                r = ProvDocument.deserialize(content=base.serialize(format=fmt), format=fmt)
                if observe.dobs_set(r) == observe.dobs_set(base):
                    fam.append(("reload-" + fmt, "same", r))
                else:
                    out.filters["reload-%s-not-faithful(C01/C02)" % fmt] += 1
            except Exception:
                out.filters["reload-%s-raised(C02)" % fmt] += 1
        seen = set()
        for label, exp, m in variants(mdoc):
            try:
                d = rebuild.rebuild(m, rename=(lambda p: "r_" + p) if label in ("rebuilt",) else None)
            except Exception as e:
                out.filters["variant-not-buildable:%s" % type(e).__name__] += 1
                continue
            if observe.dobs_ordered(d) != m:
                out.filters["variant-built-differently"] += 1
                continue
            fam.append((label, exp, d))
        # the same document after look-ups (of absent and present identifiers) in it and in its bundles
        try:
            lk = self.fresh(h).doc
            absent = rebuild.Namer().qn("http://a/not_there_at_all")
            for c in [lk] + list(lk.bundles):
                c.get_record(absent)
                c.get_record("http://nowhere.example/x")
                for r in list(c.get_records())[:2]:
                    if r.identifier is not None:
                        c.get_record(r.identifier)
                list(c.get_records(type(None)))
            fam.append(("after-lookups", "same", lk))
        except Exception as ex:
            out.filters["lookup-variant-raised:%s" % type(ex).__name__] += 1
        # the same content reached by editing records IN PLACE after they have been hashed and compared
        # (add_asserted_type, add_attributes, set_time), next to the same content built directly
        try:
            for how in ("add_asserted_type", "add_attributes"):
                e = self.fresh(h).doc
                recs = list(e.get_records()) + [r for b in e.bundles for r in b.get_records()]
                if not recs:
                    break
                for r in recs:
                    hash(r)
                _ = (e == e, e != base, len(set(recs)))
                T = rebuild.Namer().qn("http://a/EditedInPlace")
                for r in recs:
                    if how == "add_asserted_type":
                        r.add_asserted_type(T)
                    else:
                        r.add_attributes([(rebuild.Namer().qn(machine.PROV_URI + "type"), T)])
                top, bundles = mdoc
                addt = lambda rs: tuple((t, i, tuple(sorted(set(a) | {(machine.PROV_URI + "type", ("qn", "http://a/EditedInPlace"))}, key=repr))) for t, i, a in rs)
                m2 = (addt(top), tuple((u, addt(rs)) for u, rs in bundles))
                fam.append(("edited-in-place:" + how, "diff", e))
                if how == "add_asserted_type":
                    fam.append(("built-like-edited", "diff", rebuild.rebuild(m2)))
            # ... and through the setter that bypasses add_attributes: a new end time on every activity
            e = self.fresh(h).doc
            recs = list(e.get_records()) + [r for b in e.bundles for r in b.get_records()]
            act = machine.PROV_URI + "Activity"
            if any(r.get_type().uri == act for r in recs):
                import datetime
                for r in recs:
                    hash(r)
                _ = (e == e, e != base, len(set(recs)))
                t9 = datetime.datetime(2033, 3, 3, 3, 3, 3)
                for r in recs:
                    if r.get_type().uri == act:
                        r.set_time(endTime=t9)
                end = machine.PROV_URI + "endTime"
                sett = lambda rs: tuple(
                    (t, i, tuple(sorted({(a, v) for a, v in attrs if a != end} | {(end, observe.vobs(t9))}, key=repr))) if t == act
                    else (t, i, attrs) for t, i, attrs in rs)
                top, bundles = mdoc
                m3 = (sett(top), tuple((u, sett(rs)) for u, rs in bundles))
                fam.append(("edited-in-place:set_time", "diff", e))
                fam.append(("built-like-edited:set_time", "diff", rebuild.rebuild(m3)))
        except Exception as ex:
            out.filters["in-place-edit-raised:%s" % type(ex).__name__] += 1
        if len(fam) > 70:
            out.notes["family-truncated"] += 1
            fam = fam[:70]
        sobs = [observe.dobs_set(d) for _, _, d in fam]
        base_s = sobs[0]
        for (label, exp, d), s in zip(fam, sobs):
            if (s == base_s) != (exp == "same"):
                out.filters["generator-label-mismatch"] += 1
        n = len(fam)
        out.evaluations += n * n
        eq = [[None] * n for _ in range(n)]
        for i in range(n):
            for j in range(n):
                a, b = fam[i][2], fam[j][2]
                try:
                    e = a == b
                    ne = a != b
                except Exception as ex:
                    out.violation("equality-raises", type(ex).__name__, {"left": fam[i][0], "right": fam[j][0]}, hh)
                    e, ne = None, None
                eq[i][j] = e
                if e is None:
                    continue
                out.transitions += 1
                if bool(ne) == bool(e):
                    out.violation("ne-disagrees-with-eq", "doc", {"left": fam[i][0], "right": fam[j][0]}, hh)
                want = sobs[i] == sobs[j]
                if bool(e) != want:
                    out.violation("eq-differs-from-content-equivalence",
                                  "says-%s:%s" % (bool(e), ",".join(observe.classify_diff(observe.dobs(a), observe.dobs(b)))),
                                  {"left": fam[i][0], "right": fam[j][0], "library_says": bool(e), "content_equal": want,
                                   "left_doc": repr(observe.dobs_ordered(a))[:500], "right_doc": repr(observe.dobs_ordered(b))[:500]}, hh)
                else:
                    out.outcomes["agree-equal" if want else "agree-different"] += 1
        for i in range(n):
            if eq[i][i] is False:
                out.violation("not-reflexive", "doc", {"doc": fam[i][0]}, hh)
            for j in range(i + 1, n):
                if eq[i][j] is not None and eq[j][i] is not None and bool(eq[i][j]) != bool(eq[j][i]):
                    out.violation("not-symmetric", "doc:" + ",".join(observe.classify_diff(observe.dobs(fam[i][2]), observe.dobs(fam[j][2]))),
                                  {"left": fam[i][0], "right": fam[j][0], "l==r": bool(eq[i][j]), "r==l": bool(eq[j][i])}, hh)
        for i in range(n):
            row = eq[i]
            for j in range(n):
                if row[j]:
                    rj = eq[j]
                    for k in range(n):
                        if rj[k] and eq[i][k] is False:
                            out.violation("not-transitive", "doc", {"a": fam[i][0], "b": fam[j][0], "c": fam[k][0]}, hh)
        # bundles pairwise
        bl = []
        for label, exp, d in (fam[:22] + [f for f in fam[22:] if f[0].startswith(('edited', 'built-like'))]):
            for b in d.bundles:
                bl.append((label, b, frozenset(setobs_rec(r) for r in b.get_records())))
        for (l1, b1, s1) in bl:
            for (l2, b2, s2) in bl:
                e = b1 == b2
                out.transitions += 1
                if bool(e) != (s1 == s2):
                    out.violation("bundle-eq-differs-from-content-equivalence", "%s" % (bool(e)),
                                  {"left": l1, "right": l2}, hh)
                if bool(b1 != b2) == bool(e):
                    out.violation("ne-disagrees-with-eq", "bundle", {"left": l1, "right": l2}, hh)
                if bool(b2 == b1) != bool(e):
                    out.violation("not-symmetric", "bundle", {"left": l1, "right": l2}, hh)
        # records pairwise
        recs = []
        for label, exp, d in (fam[:22] + [f for f in fam[22:] if f[0].startswith(('edited', 'built-like'))]):
            for r in d.get_records():
                recs.append((label, r, setobs_rec(r)))
            for b in d.bundles:
                for r in b.get_records():
                    recs.append((label, r, setobs_rec(r)))
        for (l1, r1, s1) in recs:
            for (l2, r2, s2) in recs:
                e = r1 == r2
                out.transitions += 1
                if bool(e) != (s1 == s2):
                    out.violation("record-eq-differs-from-content-equivalence",
                                  "%s:%s" % (bool(e), _rdiff(s1, s2)), {"left": repr(s1)[:300], "right": repr(s2)[:300]}, hh)
                elif e and hash(r1) != hash(r2):
                    out.violation("equal-records-unequal-hash", "record", {"left": repr(s1)[:300]}, hh)
                if bool(r1 != r2) == bool(e):
                    out.violation("ne-disagrees-with-eq", "record", {"left": repr(s1)[:300], "right": repr(s2)[:300]}, hh)
                if bool(r2 == r1) != bool(e):
                    out.violation("not-symmetric", "record:" + _rdiff(s1, s2), {"left": repr(s1)[:300], "right": repr(s2)[:300]}, hh)
        out.nontrivial += 1
        out.conform += 1
        if len(out.samples) < 1 and n > 10:
            out.samples.append({"base": self.ops(h), "family": [f[0] for f in fam][:40]})

    def compare_script_case(self, item, out):
        """scripts/prov-compare as a subprocess, both argument orders"""
        kind, h = item
        base = self.fresh(h).doc
        mdoc = observe.dobs_ordered(base)
        hh = ("family", self.ops(h))
        repo = os.environ.get("PROVMC_REPO", "/repo")
        script = os.path.join(repo, "scripts", "prov-compare")
        env = dict(os.environ)
        picks = []
        for label, exp, m in variants(mdoc):
            if label.split("[")[0] in ("rotate", "duplicate", "rebuilt", "drop-id", "add-bundle", "change-value", "drop-bundle"):
                picks.append((label, m))
        tmp = tempfile.mkdtemp(prefix="provmc_c04_")
        try:
            f0 = os.path.join(tmp, "base.json")
            with open(f0, "w") as f:
                f.write(base.serialize(format="json"))
            done = set()
            for label, m in picks:
                kind_ = label.split("[")[0]
                if kind_ in done:
                    continue
                done.add(kind_)
                try:
                    d = rebuild.rebuild(m)
                except Exception:
                    continue
                fmt = "xml" if kind_ in ("rotate", "add-bundle") else "json"
                f1 = os.path.join(tmp, "v.%s" % fmt)
                try:
                    text = d.serialize(format=fmt)
                    back = ProvDocument.deserialize(content=text, format=fmt)
                except Exception:
                    continue
                with open(f1, "w") as f:
                    f.write(text)
                want_equal = observe.dobs_set(back) == observe.dobs_set(
                    ProvDocument.deserialize(content=open(f0).read(), format="json"))
                for a, fa, b, fb in ((f0, "json", f1, fmt), (f1, fmt, f0, "json")):
                    p = subprocess.run(["/venv/bin/python", "-B", script, a, b, "-f", fa, "-F", fb],
                                       env=env, capture_output=True, text=True)
                    out.transitions += 1
                    out.evaluations += 1
                    if p.returncode not in (0, 1) or (p.returncode == 0) != want_equal:
                        out.violation("prov-compare-exit-status", "%s:%s-exit%d" % (kind_, "base-first" if a == f0 else "base-second", p.returncode),
                                      {"variant": label, "want_equal": want_equal, "exit": p.returncode, "stderr": p.stderr[:300]}, hh)
                    else:
                        out.outcomes["prov-compare-ok"] += 1
        finally:
            import shutil
            shutil.rmtree(tmp, ignore_errors=True)

    def ops(self, hist):
        if hist and hist[0] == "family":
            return list(hist)
        return spec.Spec.ops(self, hist)

    def render(self, hist):
        if hist and hist[0] == "family":
            import ast
            ops = [ast.literal_eval(x) for x in hist[1]]
            if len(ops) == 1 and ops[0][0] == "mdoc":
                return "# base document: provmc.rebuild.rebuild(%r)\n# then build the named variants (see detail) and compare with ==" % (ops[0][1],)
            return machine.render(ops, range(len(ops)), self.values) + "\n# then build the named variants (see detail) and compare with =="
        return spec.Spec.render(self, hist)


def _norm(label):
    return label.split("[")[0]


def _rdiff(s1, s2):
    k = []
    if s1[0] != s2[0]:
        k.append("type")
    if s1[1] != s2[1]:
        k.append("id:%s/%s" % ("some" if s1[1] else "none", "some" if s2[1] else "none"))
    if s1[2] != s2[2]:
        k.append("attrs")
    return "+".join(k) or "same"


def make_spec(tier, params):
    return C04(tier, params)


def main(tier, seed):
    import time
    from .. import runner
    t0 = time.time()
    sp = make_spec(tier, {})
    depth = {"quick": 3, "thorough": 4}[tier]
    hists = []
    out, stats = explore.bfs(__name__, tier, {}, depth, collect=hists)
    items = [("hist", h) for h in hists]
    # single-record shapes (identified and anonymous), as op tuples
    prelude = (("ns", "D", "ex", "A"),)
    for kind, mask in sweeps.shapes():
        for idmode in (("anon", "id") if kind in machine.RELATIONS else ("id",)):
            rec = sweeps.shape_ops("D", ("s", "ex"), "A", kind, mask, idmode)
            items.append(("shape", prelude + (rec,)))
            items.append(("shape", prelude + (rec, ("at", ("A", "k", ("s", "ex")), "i_2"))))
    # documents with two (and three) bundles of different content
    x, y = ("A", "x", ("s", "ex")), ("A", "y", ("s", "ex"))
    two = prelude + (("bun", "B1", ("A", "b1", ("s", "ex"))), ("el", "B1", "entity", x),
                     ("bun", "B2", ("A", "b2", ("s", "ex"))), ("el", "B2", "entity", y), ("at", ("A", "k", ("s", "ex")), "i_2"))
    items.append(("shape", two))
    items.append(("shape", two + (("el", "D", "entity", x), ("el", "B1", "agent", y))))
    items.append(("shape", two + (("bun", "B3", ("A", "b3", ("s", "ex"))), ("el", "B3", "activity", x, (None, None)))))
    # records of one kind and identifier that differ only in values whose hash values collide (document level and
    # in a bundle, with a third record in between)
    k = ("A", "k", ("s", "ex"))
    for a, b in (("i_neg", "i_m2"), ("i_0", "i_2_61m1")):
        for scope_ops, scope in (((), "D"), ((("bun", "B1", ("A", "b1", ("s", "ex"))),), "B1")):
            base = prelude + scope_ops + (("el", scope, "entity", x), ("at", k, a), ("el", scope, "entity", x), ("at", k, b))
            items.append(("shape", base))
            items.append(("shape", base + (("el", scope, "entity", y), ("at", k, a))))
    # memberships holding several members (one record, prov:entity multi-valued - how PROV-JSON's compact form loads):
    # 2..4 members next to the member entities, at document level and in a bundle, alone and next to a second membership
    P = PROV_URI
    def ent(l):
        return (P + "Entity", "http://a/" + l, ())
    def mem(coll, ms):
        return (P + "Membership", None, ((P + "collection", ("qn", "http://a/" + coll)),) + tuple((P + "entity", ("qn", "http://a/" + m)) for m in ms))
    for n in (2, 3, 4):
        ms = ["m%d" % i for i in range(1, n + 1)]
        recs = (ent("c"),) + tuple(ent(m) for m in ms) + (mem("c", ms),)
        items.append(("mdoc", (("mdoc", (recs, ())),)))
        items.append(("mdoc", (("mdoc", ((mem("c", ms),), ())),)))
        items.append(("mdoc", (("mdoc", ((mem("c", ms), mem("c2", ms[:2])), ())),)))
        items.append(("mdoc", (("mdoc", ((ent("c"),), (("http://a/b1", (mem("c", ms),)),))),)))
    out2 = explore.pmap(__name__, tier, {}, "family_case", items, chunk=8)
    out.merge(out2)
    nscript = {"quick": 12, "thorough": 40}[tier]
    rich = [("hist", h) for h in hists if len(h) == depth]
    step = max(1, len(rich) // nscript)
    out3 = explore.pmap(__name__, tier, {}, "compare_script_case", rich[::step][:nscript], chunk=1)
    out.merge(out3)
    vs, nsig = runner.violations_json(sp, out)
    cov = runner.coverage_from(out, stats, sp, (
        "families of one-step variants of %d base documents (all states to depth %d + 2 x every single-record shape); "
        "all ordered pairs of each family, all triples (transitivity), all record pairs and bundle pairs; "
        "distinct = base document; non-trivial = a family was built and compared" % (len(items), depth)),
        extra={"bases": len(items), "prov_compare_bases": min(nscript, len(rich))})
    return {"property": "C04", "coverage": cov, "violations": vs, "signatures": nsig,
            "wall_s": round(time.time() - t0, 2)}


def replay(item, tier, seed):
    import ast
    from .. import runner
    sp = make_spec(tier, {})
    out = explore.Out()
    h = item.get("history", [])
    if h and h[0] == "family":
        sp.family_case(("replay", tuple(ast.literal_eval(x) for x in h[1])), out)
    vs, _ = runner.violations_json(sp, out)
    vs = [v for v in vs if v["clause"] == item.get("clause") and v["sig"] == item.get("sig")] or vs
    return {"property": "C04", "coverage": {"states": 1, "transitions": 1, "traces_validated_against_impl": 1,
            "samples": [{"replayed": h}]}, "violations": vs, "wall_s": 0}
