"""C11 - reading foreign PROV-JSON / PROV-XML is stable under re-serialisation.

(a) specification-driven generator: reference documents (the models of the shape sweep) are
    written by foreign writers (provmc/indep/foreign_json.py, foreign_xml.py - not the library's)
    in every dialect with <= 1 (thorough 2) deviations from the base spelling, each deviation
    applied everywhere and at its first / last single site.
(b) every single-point mutation of the shipped corpus (398 PROV-JSON, 44 PROV-XML files):
    JSON - value-kind change, wrap / unwrap array, reorder keys, consistent prefix rename, move a
    prefix declaration between document and bundle, at every applicable site;
    XML  - consistent prefix rename, prefix declarations pushed down to the records (nested),
    redundant xsi:type=xsd:string, and re-emission by the foreign writer in each dialect.
Oracle for a text T: loading raises a library error (prov.Error) or yields d with
   obs(reload(same format, d)) == obs(d), obs(reload(other format, d)) == obs(d) when d is
   expressible there, and obs(d) == the reference document / the independent reader's reading
   of T (nothing dropped, nothing invented).  Any other exception is reported.
"""
import copy
import glob
import json
import os
import re
from collections import OrderedDict

import prov
from prov.model import ProvDocument

from .. import explore, machine, observe, rebuild, spec, sweeps
from ..indep import foreign_json, foreign_xml, json_reader, xml_reader
from . import c02

INTERACTING = [("qname-text-padded", "default-ns"), ("multi-member", "xsi-type-on-record"), ("subtype-element", "xsi-type-on-record"), ("xsi-type-on-record", "shadowed-root-prefix"), ("xsi-type-on-record", "default-ns"),
               ("subtype-element", "shadowed-root-prefix"), ("nested-xmlns", "default-ns"),
               ("record-array", "multi-member"), ("wrap-formal", "multi-member"), ("prefix-bundle-only", "default-ns")]
PREFIXES = {"http://a/": "ex", "http://b/": "exb", "http://c/": "cc", "http://bn/": "bn", "http://a/b/": "ab"}
ENVS = ("plain-prefix", "doc-and-bundle-records", "bundle-own-prefix", "plain-prefix/bundle")


def reference_documents(tier):
    """distinct models of the sweep cases (as observation-shaped documents)"""
    seen = {}
    for tag, ops in sweeps.cases(tier):
        env = tag.split("|")[0]
        if env not in ENVS:
            continue
        st = machine.State()
        try:
            for op in ops:
                machine.apply(st, op, __import__("provmc.values", fromlist=["VALUES"]).VALUES)
        except (machine.NotEnabled, machine.NonConformance):
            continue
        except Exception:
            continue
        m = machine.model_dobs(st)
        key = repr(m)
        if key not in seen:
            seen[key] = (tag, m)
    return composite_reference_documents() + list(seen.values())


def composite_reference_documents():
    """hand-written reference documents with several interacting records (the sweep's are single-record)"""
    P = json_reader.PROV
    A, B = "http://a/", "http://b/"
    ent = lambda l, attrs=(): (P + "Entity", A + l, tuple(attrs))
    mem = lambda c, e: (P + "Membership", None, ((P + "collection", ("qn", A + c)), (P + "entity", ("qn", A + e))))
    T = (P + "type", ("qn", A + "T"))
    T2 = (P + "type", ("qn", B + "T"))
    docs = []
    docs.append(("composite|memberships", ((ent("c1"), ent("c2"), mem("c1", "e1"), mem("c1", "e2"), mem("c1", "e3"), mem("c2", "e4")), ())))
    docs.append(("composite|memberships-2x2", ((mem("c1", "e1"), mem("c1", "e2"), mem("c2", "e3"), mem("c2", "e4"), mem("c3", "e5")), ())))
    docs.append(("composite|typed-records", ((ent("r1", [T]), ent("r2", [T2, (A + "k", ("qn", B + "v"))]),
                                             (P + "Agent", A + "ag", (T, (P + "type", ("qn", P + "Person")))),
                                             (P + "Generation", A + "g", ((P + "entity", ("qn", A + "r1")), (P + "activity", ("qn", A + "a")), T))), ())))
    docs.append(("composite|two-bundles", ((ent("top", [T]),),
                                           ((A + "b1", (ent("r1", [T]), mem("c1", "e1"), mem("c1", "e2"))),
                                            (A + "b2", (ent("r1", [T2]), (P + "Activity", A + "a", ((P + "startTime", ("dt", "2012-03-04T05:06:07+00:00", 0.0)),))))))))
    docs.append(("composite|literals", ((ent("r1", [(A + "k", ("int", 1)), (A + "k2", ("bool", True)), (A + "k3", ("float", "1.0")),
                                                     (A + "k4", ("lit", "bonjour", P + "InternationalizedString", "fr")),
                                                     (A + "k4", ("str", "bonjour")), (A + "k5", ("lit", "v", B + "dt", None))]),
                                         ent("r2", [(A + "k", ("bool", True)), (A + "k2", ("int", 1))])), ())))
    # memberships of one collection that all carry the same application type
    memt = lambda c, e: (P + "Membership", None, ((P + "collection", ("qn", A + c)), (P + "entity", ("qn", A + e)), T))
    docs.append(("composite|typed-memberships", ((ent("c1"), memt("c1", "e1"), memt("c1", "e2"), memt("c1", "e3"), mem("c2", "e4"), mem("c2", "e5")), ())))
    # document-level names in http://b/, bundle names in http://a/ (two default namespaces can spell them)
    entb = lambda l, attrs=(): (P + "Entity", B + l, tuple(attrs))
    docs.append(("composite|two-default-namespaces", ((entb("top", [(B + "k", ("qn", B + "v")), (P + "type", ("qn", B + "T"))]),),
                                                      ((A + "b1", (ent("r1", [T, (A + "k", ("qn", A + "v"))]),
                                                                   (P + "Generation", None, ((P + "entity", ("qn", A + "r1")), (P + "activity", ("qn", A + "a")))),
                                                                   ent("r2", [(A + "k", ("lit", "v", A + "dt", None))]))),))))
    # formal times at midnight (xsd:dateTime has a second spelling for them: the previous day, 24:00:00)
    docs.append(("composite|midnight", ((
        (P + "Activity", A + "a", ((P + "startTime", ("dt", "2012-03-02T00:00:00", None)),
                                   (P + "endTime", ("dt", "2012-03-03T00:00:00+00:00", 0.0)))),
        (P + "Generation", None, ((P + "entity", ("qn", A + "e")), (P + "activity", ("qn", A + "a")),
                                  (P + "time", ("dt", "2012-01-01T00:00:00+05:30", 19800.0)))),
        ent("e", [(A + "k", ("str", "caf\u00e9"))])), ())))
    return docs


def canon_doc(m):
    """records with set semantics per attribute (what a loaded document can hold)"""
    top, bundles = m
    def cr(rs):
        return tuple(sorted(((t, i, tuple(sorted(set(a), key=repr))) for t, i, a in rs), key=repr))
    return (cr(top), tuple(sorted((u, cr(rs)) for u, rs in bundles)))


def xml_expressible_model(m):
    top, bundles = m
    recs = list(top)
    for _, rs in bundles:
        recs.extend(rs)
    for t, i, attrs in recs:
        for a, v in attrs:
            if v[0] == "lit" and v[2] == json_reader.XSD + "QName":
                return False
            if a == json_reader.PROV + "label" and not (v[0] == "str" or (v[0] == "lit" and v[3] is not None)):
                return False
            if v[0] in ("str", "lit") and c02.BAD_CHARS.search(v[1]):
                return False
    return True


class C11(spec.Spec):
    prop = "C11"

    def __init__(self, tier, params=None):
        super().__init__(tier, params)
        import logging
        import warnings
        logging.disable(logging.CRITICAL)
        warnings.simplefilter("ignore")
        self.alphabet = []
        self.two = tier == "thorough"

    # ---- the oracle ---------------------------------------------------------------------
    def judge_text(self, text, fmt, expected, hh, out, label):
        out.evaluations += 1
        out.transitions += 1
        try:
            d = ProvDocument.deserialize(content=text, format=fmt)
        except prov.Error as e:
            out.outcomes["refused:%s" % type(e).__name__] += 1
            if expected is not None and label.startswith("gen"):
                out.notes["spec-valid generated text refused: %s %s" % (fmt, re.sub(r"\W+", " ", str(e))[:60])] += 1
            return
        except Exception as e:
            out.violation("non-library-exception-on-load", "%s:%s" % (fmt, type(e).__name__),
                          {"error": repr(e)[:300], "text": text[:1500], "what": label}, hh)
            return
        got = observe.dobs(d)
        if expected is not None and got != canon_doc(expected):
            out.violation("loaded-document-differs-from-text", "%s:%s" % (fmt, ",".join(observe.classify_diff(canon_doc(expected), got))),
                          {"diff": observe.diff_obs(canon_doc(expected), got), "text": text[:1500], "what": label}, hh)
            return
        for fmt2 in (fmt, "xml" if fmt == "json" else "json"):
            if fmt2 == "xml" and c02.xml_filter(d) is not None:
                out.filters["cross-format:" + c02.xml_filter(d)] += 1
                continue
            try:
                t2 = d.serialize(format=fmt2)
                d2 = ProvDocument.deserialize(content=t2, format=fmt2)
            except Exception as e:
                out.violation("re-serialisation-raises", "%s->%s:%s" % (fmt, fmt2, type(e).__name__),
                              {"error": repr(e)[:300], "text": text[:1500], "what": label}, hh)
                continue
            g2 = observe.dobs(d2)
            if g2 != got:
                out.violation("not-stable-under-re-serialisation", "%s->%s:%s" % (fmt, fmt2, ",".join(observe.classify_diff(got, g2))),
                              {"diff": observe.diff_obs(got, g2), "text": text[:1500], "what": label}, hh)
            else:
                out.outcomes["stable:%s->%s" % (fmt, fmt2)] += 1
        out.nontrivial += 1
        out.conform += 1

    # ---- (a) generator ------------------------------------------------------------------
    def gen_case(self, item, out):
        tag, m = item
        for fmt, mod in (("json", foreign_json), ("xml", foreign_xml)):
            if fmt == "xml" and not xml_expressible_model(m):
                out.filters["model-not-XML-expressible"] += 1
                continue
            dialects = [()]
            counts = {}
            for dname in mod.DEVIATIONS:
                s = foreign_json.Sites([(dname, -1)])
                try:
                    if fmt == "json":
                        foreign_json.write_with(m, PREFIXES, s, "http://a/")
                    else:
                        foreign_xml._count(m, PREFIXES, s, "http://a/")
                except Exception:
                    pass
                counts[dname] = s.counters.get(dname, 0)
            single = []
            for dname, n in counts.items():
                if n == 0:
                    continue
                single.append(((dname, None),))
                if n > 1:
                    single.append(((dname, 0),))
                    single.append(((dname, n - 1),))
            dialects += single
            glob_ = [d for d in single if d[0][1] is None]
            if self.two or tag.startswith("composite"):
                for i in range(len(glob_)):
                    for j in range(i + 1, len(glob_)):
                        dialects.append(glob_[i] + glob_[j])
            else:
                # pairs of deviations known to meet in one code path are always tried
                names = {d[0][0] for d in glob_}
                for a, b in INTERACTING:
                    if a in names and b in names:
                        dialects.append(((a, None), (b, None)))
            for dia in dialects:
                try:
                    text = mod.write(m, PREFIXES, dia, default="http://a/")
                except Exception as e:
                    out.filters["foreign-writer-raises:%s" % type(e).__name__] += 1
                    continue
                # the generator/reader pair is self-checked: the independent reader must read the text back
                rd, problems = (json_reader.read if fmt == "json" else xml_reader.read)(text)
                if problems or rd != canon_doc(m):
                    out.filters["machinery:independent-reader-disagrees-with-foreign-writer"] += 1
                    out.notes["machinery %s %r %s" % (fmt, dia, (problems or ["content"])[0][:80])] += 1
                    continue
                for dname, _site in dia:
                    out.outcomes["texts-with:%s:%s" % (fmt, dname)] += 1  # (vacuity: a deviation without texts is dead)
                self.judge_text(text, fmt, m, ("gen", tag, fmt, repr(dia), repr(m)), out, "gen:%s:%s" % (fmt, dia))
        if len(out.samples) < 1:
            out.samples.append({"reference_document": tag, "dialects_tried": len(dialects)})

    # ---- (b) corpus mutants ---------------------------------------------------------------
    def corpus_json_case(self, path, out):
        text = open(path, encoding="utf-8").read()
        base = os.path.basename(path)
        try:
            d0 = ProvDocument.deserialize(content=text, format="json")
        except Exception as e:
            out.filters["corpus-file-not-loadable:%s" % type(e).__name__] += 1
            return
        ref, problems = json_reader.read(text)
        if problems or ref != observe.dobs(d0):
            # J1 (1/True in one attribute: Python set semantics) and similar - excluded by the quantifier
            out.filters["corpus-file-outside-claimed-space(J1)"] += 1
            return
        self.judge_text(text, "json", ref, ("corpus", base, "original"), out, "corpus-original")
        n = 0
        for label, mutant in json_mutants(json.loads(text, object_pairs_hook=OrderedDict)):
            mt = json.dumps(mutant, ensure_ascii=False)
            exp, problems = json_reader.read(mt)
            if problems or exp != ref:
                out.filters["mutant-changes-meaning:%s" % label.split("@")[0]] += 1
                continue
            n += 1
            self.judge_text(mt, "json", ref, ("corpus", base, label), out, "corpus-mutant:%s" % label.split("@")[0])
        out.outcomes["json-mutants"] += n

    def corpus_xml_case(self, path, out):
        text = open(path, encoding="utf-8").read()
        base = os.path.basename(path)
        try:
            d0 = ProvDocument.deserialize(content=text, format="xml")
        except prov.Error as e:
            out.outcomes["corpus-xml-refused:%s" % type(e).__name__] += 1
            d0 = None
        except Exception as e:
            out.violation("non-library-exception-on-load", "xml:%s" % type(e).__name__,
                          {"error": repr(e)[:300], "file": base}, ("corpus", base, "original"))
            return
        ref, problems = xml_reader.read(text)
        if ref is None:
            out.filters["corpus-xml-not-readable-independently"] += 1
            return
        structural = [p for p in problems if "schema order" not in p]
        if d0 is not None:
            if structural or ref != observe.dobs(d0):
                out.filters["corpus-xml-readers-disagree(recorded)"] += 1
                out.notes["xml corpus disagreement %s: %s" % (base, (structural or observe.classify_diff(ref, observe.dobs(d0)))[:1])] += 1
                expected = None
            else:
                expected = ref
            self.judge_text(text, "xml", expected, ("corpus", base, "original"), out, "corpus-original")
        n = 0
        for label, mt in xml_mutants(text):
            exp, problems2 = xml_reader.read(mt)
            if exp is None or exp != ref:
                out.filters["mutant-changes-meaning:%s" % label.split("@")[0]] += 1
                continue
            n += 1
            self.judge_text(mt, "xml", ref if (d0 is not None and not structural and ref == observe.dobs(d0)) else None,
                            ("corpus", base, label), out, "corpus-mutant:%s" % label.split("@")[0])
        # the same content re-emitted by the foreign writer in every dialect
        if not structural and xml_expressible_model(ref):
            prefixes = dict(PREFIXES)
            for dname in [None] + foreign_xml.DEVIATIONS:
                dia = () if dname is None else ((dname, None),)
                try:
                    t2 = foreign_xml.write(ref, prefixes, dia, default=None)
                except Exception:
                    continue
                rd, pr = xml_reader.read(t2)
                if pr or rd != canon_doc(ref):
                    out.filters["machinery:independent-reader-disagrees-with-foreign-writer"] += 1
                    continue
                n += 1
                self.judge_text(t2, "xml", ref, ("corpus", base, "re-emitted:%s" % dname), out, "corpus-re-emitted")
        out.outcomes["xml-mutants"] += n

    def ops(self, hist):
        return list(hist)

    def render(self, hist):
        return "# %r" % (hist[:4],)


# ---- JSON single-point mutation operators ------------------------------------------------------
def json_mutants(j):
    """yield (label, mutated copy); every operator at every applicable site"""
    sites = []

    def walk_records(cont, path):
        for kind, recs in cont.items():
            if kind in ("prefix", "bundle") or not isinstance(recs, dict):
                continue
            for rid, content in recs.items():
                items = content if isinstance(content, list) else [content]
                sites.append(("record", path + (kind, rid)))
                for idx, item in enumerate(items):
                    if not isinstance(item, dict):
                        continue
                    rp = path + (kind, rid) + ((idx,) if isinstance(content, list) else ())
                    sites.append(("keys", rp))
                    for a, v in item.items():
                        sites.append(("attr", rp + (a,)))
                        if isinstance(v, list):
                            for k in range(len(v)):
                                sites.append(("value", rp + (a, k)))
                        else:
                            sites.append(("value", rp + (a,)))
    walk_records(j, ())
    for bid, bc in (j.get("bundle") or {}).items():
        if isinstance(bc, dict):
            walk_records(bc, ("bundle", bid))

    def get(root, path):
        cur = root
        for p in path:
            cur = cur[p]
        return cur

    def setp(root, path, val):
        cur = root
        for p in path[:-1]:
            cur = cur[p]
        cur[path[-1]] = val

    for kind, path in sites:
        if kind == "value":
            v = get(j, path)
            alts = []
            if isinstance(v, str) and not path[-1 if not isinstance(path[-1], int) else -2].startswith("prov:"):
                alts.append(("kind", OrderedDict([("$", v), ("type", "xsd:string")])))
            elif isinstance(v, bool):
                alts.append(("kind", OrderedDict([("$", "true" if v else "false"), ("type", "xsd:boolean")])))
            elif isinstance(v, int):
                alts.append(("kind", OrderedDict([("$", str(v)), ("type", "xsd:int")])))
            elif isinstance(v, float):
                alts.append(("kind", OrderedDict([("$", repr(v)), ("type", "xsd:double")])))
            elif isinstance(v, dict) and "$" in v:
                t = v.get("type")
                if t == "xsd:string" and isinstance(v["$"], str):
                    alts.append(("kind", v["$"]))
                elif t in ("xsd:int", "xsd:long"):
                    try:
                        alts.append(("kind", OrderedDict([("$", int(v["$"]) if isinstance(v["$"], str) else str(v["$"])), ("type", t)])))
                    except ValueError:
                        pass
                elif t == "xsd:boolean" and isinstance(v["$"], str) and v["$"] in ("true", "false"):
                    alts.append(("kind", v["$"] == "true"))
                elif isinstance(v["$"], str) and re.match(r"^(0|-?[1-9][0-9]{0,15})$", v["$"]) and "lang" not in v:
                    alts.append(("kind", OrderedDict([("$", int(v["$"])), ("type", t)])))
                elif t == "xsd:double":
                    try:
                        alts.append(("kind", OrderedDict([("$", float(v["$"]) if isinstance(v["$"], str) else repr(v["$"])), ("type", t)])))
                    except ValueError:
                        pass
            for lab, alt in alts:
                m = copy.deepcopy(j)
                setp(m, path, alt)
                yield "value-kind@%s" % (path,), m
        elif kind == "attr":
            v = get(j, path)
            m = copy.deepcopy(j)
            if isinstance(v, list):
                if len(v) == 1:
                    setp(m, path, v[0])
                    yield "unwrap-array@%s" % (path,), m
            else:
                setp(m, path, [v])
                yield "wrap-array@%s" % (path,), m
        elif kind == "record":
            v = get(j, path)
            m = copy.deepcopy(j)
            if isinstance(v, list):
                if len(v) == 1:
                    setp(m, path, v[0])
                    yield "unwrap-record@%s" % (path,), m
            else:
                setp(m, path, [v])
                yield "wrap-record@%s" % (path,), m
        elif kind == "keys":
            v = get(j, path)
            if len(v) > 1:
                m = copy.deepcopy(j)
                setp(m, path, OrderedDict(reversed(list(v.items()))))
                yield "reorder-keys@%s" % (path,), m
    if len(j) > 1:
        yield "reorder-keys@top", OrderedDict(reversed(list(copy.deepcopy(j).items())))
    for kind in list(j):
        if kind not in ("prefix", "bundle") and isinstance(j[kind], dict) and len(j[kind]) > 1:
            m = copy.deepcopy(j)
            m[kind] = OrderedDict(reversed(list(m[kind].items())))
            yield "reorder-keys@%s" % kind, m
    # consistent prefix rename
    prefixes = set((j.get("prefix") or {}).keys())
    for bc in (j.get("bundle") or {}).values():
        if isinstance(bc, dict):
            prefixes |= set((bc.get("prefix") or {}).keys())
    for p in sorted(prefixes - {"default"}):
        yield "rename-prefix@%s" % p, rename_prefix(copy.deepcopy(j), p, p + "_rn")
    # move / copy prefix declarations between document and bundles
    if j.get("bundle"):
        docp = j.get("prefix") or {}
        for p, u in docp.items():
            if p == "default":
                continue
            # copy the declaration into every bundle (redundant but legal)
            m = copy.deepcopy(j)
            for bid, bc in m["bundle"].items():
                if isinstance(bc, dict):
                    pb = bc.get("prefix")
                    if pb is None:
                        nb = OrderedDict([("prefix", OrderedDict([(p, u)]))])
                        nb.update(bc)
                        m["bundle"][bid] = nb
                    elif p not in pb:
                        pb[p] = u
            yield "copy-prefix-to-bundles@%s" % p, m
            # move it (drop at document level) - meaning-preserving only if unused there (checked by the caller)
            m2 = copy.deepcopy(m)
            del m2["prefix"][p]
            if not m2["prefix"]:
                del m2["prefix"]
            yield "move-prefix-to-bundles@%s" % p, m2
        for bid, bc in j["bundle"].items():
            if isinstance(bc, dict):
                for p, u in (bc.get("prefix") or {}).items():
                    if p == "default" or p in docp:
                        continue
                    m = copy.deepcopy(j)
                    del m["bundle"][bid]["prefix"][p]
                    if not m["bundle"][bid]["prefix"]:
                        del m["bundle"][bid]["prefix"]
                    np = OrderedDict(m.get("prefix") or {})
                    np[p] = u
                    m2 = OrderedDict([("prefix", np)])
                    for k, v in m.items():
                        if k != "prefix":
                            m2[k] = v
                    yield "move-prefix-to-document@%s" % p, m2


def rename_prefix(j, old, new):
    def rn(s):
        if isinstance(s, str) and s.startswith(old + ":"):
            return new + s[len(old):]
        return s

    def rn_value(v):
        if isinstance(v, dict):
            o = OrderedDict()
            for k, x in v.items():
                if k == "type":
                    o[k] = rn(x)
                elif k == "$" and v.get("type") in ("prov:QUALIFIED_NAME", "xsd:QName"):
                    o[k] = rn(x)
                else:
                    o[k] = x
            return o
        return v

    def rn_cont(c):
        o = OrderedDict()
        for k, v in c.items():
            if k == "prefix":
                o[k] = OrderedDict((new if p == old else p, u) for p, u in v.items())
            elif k == "bundle":
                o[k] = OrderedDict((rn(b), rn_cont(bc)) for b, bc in v.items())
            elif isinstance(v, dict):
                recs = OrderedDict()
                for rid, content in v.items():
                    def rn_rec(item):
                        r = OrderedDict()
                        for a, val in item.items():
                            if a.startswith("prov:") and a[5:] in json_reader.REF_ATTRS:
                                r[rn(a)] = [rn(x) for x in val] if isinstance(val, list) else rn(val)
                            elif isinstance(val, list):
                                r[rn(a)] = [rn_value(x) for x in val]
                            else:
                                r[rn(a)] = rn_value(val)
                        return r
                    recs[rn(rid)] = [rn_rec(x) for x in content] if isinstance(content, list) else rn_rec(content)
                o[k] = recs
            else:
                o[k] = v
        return o
    return rn_cont(j)


# ---- XML mutation operators (text level, conservative) ------------------------------------------
def xml_mutants(text):
    # consistent rename of each declared prefix (not prov/xsi/xsd/xml)
    declared = sorted(set(re.findall(r"xmlns:([A-Za-z_][\w.\-]*)=", text)))
    for p in declared:
        if p in ("prov", "xsi", "xsd", "xml"):
            continue
        q = p + "_rn"
        t = re.sub(r"xmlns:%s=" % re.escape(p), "xmlns:%s=" % q, text)
        t = re.sub(r"(</?)%s:" % re.escape(p), r"\g<1>%s:" % q, t)
        t = re.sub(r'((?:prov:id|prov:ref|xsi:type)\s*=\s*["\'])%s:' % re.escape(p), r"\g<1>%s:" % q, t)
        t = re.sub(r'(xsi:type\s*=\s*["\']xsd:QName["\'][^>]*>\s*)%s:' % re.escape(p), r"\g<1>%s:" % q, t)
        yield "rename-prefix@%s" % p, t
    # push the root's prefix declarations down onto every record element (nested declarations)
    m = re.search(r"<prov:document\b([^>]*)>", text)
    if m:
        decls = re.findall(r'\s(xmlns:(?!prov\b|xsi\b|xsd\b)[\w.\-]+\s*=\s*"[^"]*")', m.group(1))
        if decls:
            root_attrs = m.group(1)
            for d in decls:
                root_attrs = root_attrs.replace(d, "")
            t = text[:m.start()] + "<prov:document%s>" % root_attrs + text[m.end():]
            body_start = m.start() + len("<prov:document%s>" % root_attrs)
            head, body = t[:body_start], t[body_start:]
            depth = [0]

            def add(mm):
                return mm.group(0)
            # add the declarations to every direct child start tag of the root (records and bundleContent)
            out = []
            pos = 0
            level = 0
            for tag in re.finditer(r"<(/?)([A-Za-z_][\w.\-]*:[\w.\-]+)([^<>]*?)(/?)>", body):
                closing, name, attrs, selfclose = tag.groups()
                if closing:
                    level -= 1
                    continue
                if level == 0:
                    out.append(body[pos:tag.start()])
                    out.append("<%s%s %s%s>" % (name, attrs, " ".join(decls), "/" if selfclose else ""))
                    pos = tag.end()
                if not selfclose:
                    level += 1
            out.append(body[pos:])
            yield "nested-prefix-declarations", head + "".join(out)
    # redundant xsi:type="xsd:string" on each untyped, non-PROV, text-only attribute element
    k = 0
    for mm in re.finditer(r"<((?!prov:)[A-Za-z_][\w.\-]*:[\w.\-]+)>([^<]*)</\1>", text):
        k += 1
        if k > 40:
            break
        t = text[:mm.start()] + '<%s xsi:type="xsd:string">%s</%s>' % (mm.group(1), mm.group(2), mm.group(1)) + text[mm.end():]
        yield "redundant-string-type@%d" % k, t


def make_spec(tier, params):
    return C11(tier, params)


def main(tier, seed):
    import time
    from .. import runner
    t0 = time.time()
    sp = make_spec(tier, {})
    repo = os.environ.get("PROVMC_REPO", "/repo")
    refs = reference_documents("quick")
    if tier == "quick":
        refs = [r for r in refs if r[0].startswith("composite")] + [r for r in refs if not r[0].startswith("composite")][::3]
    out = explore.pmap(__name__, tier, {}, "gen_case", refs, chunk=10)
    out.evaluations -= len(refs)
    jfiles = sorted(glob.glob(os.path.join(repo, "src/prov/tests/json/*.json")))
    xfiles = sorted(glob.glob(os.path.join(repo, "src/prov/tests/xml/*.xml")))
    o2 = explore.pmap(__name__, tier, {}, "corpus_json_case", jfiles, chunk=4)
    o2.evaluations -= len(jfiles)
    out.merge(o2)
    o3 = explore.pmap(__name__, tier, {}, "corpus_xml_case", xfiles, chunk=2)
    o3.evaluations -= len(xfiles)
    out.merge(o3)
    vs, nsig = runner.violations_json(sp, out)
    cov = {
        "states": out.nontrivial, "transitions": out.transitions, "traces_validated_against_impl": out.conform,
        "evaluations": out.evaluations, "distinct_nontrivial": out.nontrivial,
        "rule": ("(a) %d reference documents x 2 foreign writers x every dialect with <= %d deviation(s) (each deviation "
                 "everywhere / first site / last site); (b) every single-point mutant of %d JSON + %d XML corpus files "
                 "(value kind, wrap/unwrap, key order, prefix rename, prefix declaration placement; XML also re-emitted "
                 "in every dialect); distinct = text; non-trivial = loaded and judged for stability and content" % (
                     len(refs), 2 if tier == "thorough" else 1, len(jfiles), len(xfiles))),
        "samples": out.samples[:2], "exhaustive": True,
        "filters": dict(out.filters), "outcomes": dict(out.outcomes), "notes": dict(out.notes),
        "reference_documents": len(refs), "corpus_files": len(jfiles) + len(xfiles),
    }
    return {"property": "C11", "coverage": cov, "violations": vs, "signatures": nsig,
            "assumptions": ["the foreign writers and independent readers (provmc/indep) are the trusted statement of the "
                            "formats; each generated text is first read back by the independent reader (self-check)"],
            "wall_s": round(time.time() - t0, 2)}


def replay(item, tier, seed):
    import ast
    from .. import runner
    sp = make_spec(tier, {})
    out = explore.Out()
    h = item.get("history", [])
    repo = os.environ.get("PROVMC_REPO", "/repo")
    if h and h[0] == "gen":
        m = ast.literal_eval(h[4])
        sp.gen_case((h[1], m), out)
    elif h and h[0] == "corpus":
        for sub, f in (("json", sp.corpus_json_case), ("xml", sp.corpus_xml_case)):
            p = os.path.join(repo, "src/prov/tests", sub, h[1])
            if os.path.exists(p):
                f(p, out)
    vs, _ = runner.violations_json(sp, out)
    vs = [v for v in vs if v["clause"] == item.get("clause") and v["sig"] == item.get("sig")] or vs
    return {"property": "C11", "coverage": {"states": 1, "transitions": 1, "traces_validated_against_impl": 1,
            "samples": [{"replayed": h[:4]}]}, "violations": vs, "wall_s": 0}
