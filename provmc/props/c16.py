"""C16 - all source/destination kinds agree, and prov.read detects the format.

Exhaustive product: 12 documents (non-ASCII identifiers and values, bundles, long strings;
inside the C01, C02 and C07 spaces) x format {json, xml, rdf, provn} x destination {returned
str, text stream, binary stream, path}, then x source {content str, content bytes, text stream,
binary stream, path} x reader {deserialize(format), prov.read(format), prov.read()} x
{seekable, non-seekable stream}.  The *state* explored for prov.read is the stream position
left behind by its earlier detection attempts.
"""
import datetime
import io
import os
import shutil
import tempfile
import xml.etree.ElementTree as ET

import prov
from prov.identifier import Identifier, Namespace, QualifiedName
from prov.model import Literal, ProvDocument

from .. import explore, observe, spec
from . import c13

A = "http://a/"
EX = Namespace("ex", A)
T1 = datetime.datetime(2012, 3, 4, 5, 6, 7)
T3 = datetime.datetime(2014, 6, 7, 8, 9, 10, tzinfo=datetime.timezone(datetime.timedelta(hours=5, minutes=30)))


def docs():
    out = []

    def new():
        d = ProvDocument()
        d.add_namespace("ex", A)
        return d
    d = new()
    out.append(("empty-with-namespace", d))
    d = new()
    d.entity("ex:é漢", {"ex:k": "é漢😀"})
    out.append(("non-ascii-id-and-value", d))
    d = new()
    d.entity("ex:e1", {"ex:i": 2, "ex:b": True, "ex:t": T3, "ex:u": Identifier("http://c/r?a=1&b=2"),
                       "ex:q": EX["v"], "ex:l": Literal("bonjour", langtag="fr"), "prov:label": "étiquette"})
    out.append(("value-kinds", d))
    d = new()
    d.activity("ex:a1", T1, T3, {"prov:type": EX["Run"]})
    out.append(("activity-times", d))
    d = new()
    d.entity("ex:e1")
    d.activity("ex:a1")
    d.generation("ex:e1", "ex:a1", T3, identifier="ex:g1", other_attributes={"prov:role": "writer-é"})
    out.append(("generation-identified", d))
    d = new()
    d.entity("ex:e1")
    d.entity("ex:e2")
    d.activity("ex:a1")
    d.agent("ex:g1")
    d.usage("ex:a1", "ex:e1")
    d.derivation("ex:e2", "ex:e1")
    d.attribution("ex:e2", "ex:g1")
    d.association("ex:a1", "ex:g1", identifier="ex:as1", other_attributes={"prov:role": "op"})
    out.append(("several-relations", d))
    d = new()
    d.entity("ex:top")
    b = d.bundle("ex:b1")
    b.entity("ex:é1", {"ex:k": "dans le lot"})
    out.append(("one-bundle", d))
    d = new()
    b1 = d.bundle("ex:b1")
    b1.entity("ex:e1")
    b2 = d.bundle("ex:b2")
    b2.activity("ex:a1", T1)
    b2.agent("ex:g1")
    out.append(("two-bundles", d))
    d = new()
    d.entity("ex:big", {"ex:k": "é" + "x" * 20000})
    out.append(("20kB-string", d))
    d = new()
    # multi-byte characters every 7 bytes: whatever the block size of a chunked copy, some block
    # boundary falls inside a character
    d.entity("ex:dense", {"ex:k": "éxxxxx" * 4000, "ex:k2": "漢xx" * 3000})
    out.append(("30kB-dense-non-ascii", d))
    d = new()
    d.entity("ex:e1", {"ex:k": "l1\nl2 \"quoted\" <&> ]]> \\ \t end"})
    out.append(("markup-string", d))
    d = new()
    # characters that str.splitlines() treats as line ends but XML / JSON do not
    d.entity("ex:e1", {"ex:k": "l1\u2028l2\u2029l3\x85l4", "prov:label": Literal("a\u2028b", langtag="en")})
    out.append(("unicode-line-separators", d))
    d = new()
    # text that Unicode normalisation would change: decomposed accents next to their composed twins (two different
    # identifiers, two different values), compatibility characters (ANGSTROM SIGN, OHM SIGN, a CJK compatibility ideograph)
    d.entity("ex:e\u0301", {"ex:k": "cafe\u0301 \u212b \u2126 \ufa10", "prov:label": Literal("e\u0301", langtag="fr")})
    d.entity("ex:\u00e9", {"ex:k": "caf\u00e9 \u00c5 \u03a9 \u585a"})
    out.append(("unicode-normal-forms", d))
    d = new()
    d.agent("ex:g1")
    d.agent("ex:g2", {"prov:type": QualifiedName(Namespace("prov", "http://www.w3.org/ns/prov#"), "Person")})
    d.delegation("ex:g2", "ex:g1", identifier="ex:d1", other_attributes={"ex:k": "délégation"})
    out.append(("agents-delegation", d))
    d = new()
    d.add_namespace("other", "http://c/")
    d.entity("other:e9", {"other:k": QualifiedName(Namespace("other", "http://c/"), "val")})
    d.entity("ex:e1", {"prov:value": "€"})
    out.append(("two-namespaces", d))
    return out


# writer-option variants are treated as formats of their own (same readers as the base format)
VARIANTS = {"json/ensure_ascii=False": ("json", {"ensure_ascii": False, "indent": 1}),
            "json/sort_keys": ("json", {"sort_keys": True}),
            "xml/force_types": ("xml", {"force_types": True})}


class NonSeekable(object):
    def __init__(self, inner):
        self._inner = inner

    def read(self, *a):
        return self._inner.read(*a)

    def readline(self, *a):
        return self._inner.readline(*a)

    def readable(self):
        return True

    def seekable(self):
        return False

    def seek(self, *a):
        raise io.UnsupportedOperation("not seekable")

    def tell(self):
        raise io.UnsupportedOperation("not seekable")

    def __iter__(self):
        return iter(self._inner)

    def close(self):
        pass


class NSText(NonSeekable, io.TextIOBase):
    pass


class NSBytes(NonSeekable, io.RawIOBase):
    pass


def _tempfile_source(tmp, text):
    tf = tempfile.NamedTemporaryFile("w+", encoding="utf-8", newline="", dir=tmp, suffix=".src")
    tf.write(text)
    tf.flush()
    tf.seek(0)
    return tf


def _close(kw):
    src = kw.get("source")
    if hasattr(src, "close") and not isinstance(src, (io.StringIO, io.BytesIO)):
        try:
            src.close()
        except Exception:
            pass


def c14n(text_or_bytes):
    data = text_or_bytes if isinstance(text_or_bytes, str) else text_or_bytes.decode("utf-8")
    # drop the XML declaration (encoding pseudo-attribute differs between text and binary targets)
    if data.startswith("<?xml"):
        data = data[data.index("?>") + 2:]
    return ET.canonicalize(data, strip_text=True)


def same_doc(fmt, got, want_doc):
    if fmt == "rdf":
        return observe.dobs_set(got) == observe.dobs_set(want_doc)
    return observe.dobs(got) == observe.dobs(want_doc)


class C16(spec.Spec):
    prop = "C16"

    def __init__(self, tier, params=None):
        super().__init__(tier, params)
        self.alphabet = []
        self.docs = docs()

    def cell(self, item, out):
        di, fmt = item
        name, doc = self.docs[di]
        hh = ("c16", name, fmt)
        tmp = tempfile.mkdtemp(prefix="provmc_c16_")
        try:
            self.run_cell(name, doc, fmt, tmp, hh, out)
        finally:
            shutil.rmtree(tmp, ignore_errors=True)

    def ser(self, doc, fmt, dest=None):
        fmt, opts = VARIANTS.get(fmt, (fmt, {}))
        if fmt == "rdf":
            c13._reset_bnodes()
        return doc.serialize(dest, format=fmt, **opts) if dest is not None else doc.serialize(format=fmt, **opts)

    def run_cell(self, name, doc, fmt, tmp, hh, out):
        variant = fmt
        base = VARIANTS.get(fmt, (fmt, {}))[0]
        self._run_cell(name, doc, variant, base, tmp, hh, out)

    def _run_cell(self, name, doc, fmt, base, tmp, hh, out):
        # ---- destinations (fmt = variant used for writing, base = format name used for comparing / reading)
        try:
            s_ret = self.ser(doc, fmt)
            sio = io.StringIO()
            self.ser(doc, fmt, sio)
            bio = io.BytesIO()
            self.ser(doc, fmt, bio)
            # (a file name with a non-ASCII character and a percent-escape look-alike)
            path = os.path.join(tmp, "out-é%20v." + base)
            self.ser(doc, fmt, path)
            with open(path, "rb") as f:
                fbytes = f.read()
            if set(os.listdir(tmp)) != {os.path.basename(path)}:
                out.violation("path-destination-written-elsewhere", fmt, {"files": sorted(os.listdir(tmp))}, hh)
                return
            # a text file whose encoding is not UTF-8 (GB18030 covers all of Unicode and has no byte-order mark a parser could
            # detect): the stream, not the library, owns the encoding
            p16 = os.path.join(tmp, "gb18030." + base)
            with open(p16, "w", encoding="gb18030", newline="") as f16:
                self.ser(doc, fmt, f16)
            with open(p16, "r", encoding="gb18030", newline="") as f16:
                t16 = f16.read()
        except Exception as e:
            out.violation("serialize-raises", "%s:%s" % (fmt, type(e).__name__), {"error": repr(e)}, hh)
            return
        out.transitions += 5
        texts = {"returned": s_ret, "StringIO": sio.getvalue(), "BytesIO": bio.getvalue(), "path": fbytes, "gb18030-text-file": t16}
        # a text stream that is not an io.TextIOBase instance (tempfile's wrapper around one)
        try:
            with tempfile.NamedTemporaryFile("w+", encoding="utf-8", newline="", dir=tmp, suffix=".tmp") as tf:
                self.ser(doc, fmt, tf)
                tf.flush()
                tf.seek(0)
                texts["tempfile-text-wrapper"] = tf.read()
        except Exception as e:
            out.violation("serialize-raises", "%s:tempfile-text-wrapper:%s" % (base, type(e).__name__), {"error": repr(e)}, hh)
        out.transitions += 1
        # a codecs writer: a text stream (it takes str) over a binary one, without an `encoding` attribute
        try:
            import codecs
            raw = io.BytesIO()
            self.ser(doc, fmt, codecs.getwriter("utf-8")(raw))
            texts["codecs-writer"] = raw.getvalue()
        except Exception as e:
            out.violation("serialize-raises", "%s:codecs-writer:%s" % (base, type(e).__name__), {"error": repr(e)}, hh)
        # the same wrapper class, opened in binary mode (after the text-mode instance above)
        try:
            with tempfile.NamedTemporaryFile("w+b", dir=tmp, suffix=".btmp") as tf:
                self.ser(doc, fmt, tf)
                tf.flush()
                tf.seek(0)
                texts["tempfile-binary-wrapper"] = tf.read()
        except Exception as e:
            out.violation("serialize-raises", "%s:tempfile-binary-wrapper:%s" % (base, type(e).__name__), {"error": repr(e)}, hh)
        # file names near the file system's limit of 255 BYTES: 80 three-byte characters, and 245 ASCII letters
        for label, stem in (("long-multibyte-name", "\u6f22" * 80), ("long-ascii-name", "a" * 245)):
            lp = os.path.join(tmp, stem + "." + base)
            try:
                with open(lp, "wb"):
                    pass
                os.unlink(lp)
            except OSError:
                out.filters["file-system-refuses-" + label] += 1
                continue
            try:
                self.ser(doc, fmt, lp)
                with open(lp, "rb") as f:
                    texts["path:" + label] = f.read()
                os.unlink(lp)
            except Exception as e:
                out.violation("serialize-raises", "%s:path:%s:%s" % (base, label, type(e).__name__), {"error": repr(e)[:200]}, hh)
            out.transitions += 1
        # one relative file name written from two working directories
        cwd = os.getcwd()
        try:
            for sub in ("wd1", "wd2"):
                os.makedirs(os.path.join(tmp, sub))
                os.chdir(os.path.join(tmp, sub))
                self.ser(doc, fmt, "rel-out." + base)
            os.chdir(cwd)
            for sub in ("wd1", "wd2"):
                pth = os.path.join(tmp, sub, "rel-out." + base)
                if not os.path.exists(pth):
                    out.violation("relative-path-written-elsewhere", fmt, {"missing": sub, "files": sorted(os.listdir(os.path.join(tmp, sub)))}, hh)
                    break
                with open(pth, "rb") as f:
                    texts["relative-path-from-" + sub] = f.read()
        except Exception as e:
            out.violation("serialize-raises", "%s:relative-path:%s" % (base, type(e).__name__), {"error": repr(e)}, hh)
        finally:
            os.chdir(cwd)
        out.transitions += 3
        if not isinstance(s_ret, str):
            out.violation("returned-value-not-str", fmt, {"type": type(s_ret).__name__}, hh)
            return
        for k in ("BytesIO", "path"):
            if not isinstance(texts[k], bytes):
                out.violation("binary-target-not-bytes", "%s:%s" % (fmt, k), {}, hh)
                return
        if base == "xml":
            canon = {k: c14n(v) for k, v in texts.items()}
            ref = canon["returned"]
            for k, v in canon.items():
                if v != ref:
                    out.violation("destinations-disagree", "xml:%s" % k, {"a": ref[:300], "b": v[:300]}, hh)
        else:
            ref = s_ret
            for k in ("StringIO", "gb18030-text-file", "tempfile-text-wrapper"):
                if k in texts and texts[k] != ref:
                    out.violation("destinations-disagree", "%s:%s" % (fmt, k), {"a": ref[:300], "b": texts[k][:300]}, hh)
            for k in ("BytesIO", "path", "tempfile-binary-wrapper", "relative-path-from-wd1", "relative-path-from-wd2", "codecs-writer",
                      "path:long-multibyte-name", "path:long-ascii-name"):
                if k not in texts:
                    continue
                try:
                    dec = texts[k].decode("utf-8")
                except UnicodeDecodeError as e:
                    out.violation("binary-target-not-utf8", "%s:%s" % (fmt, k), {"error": str(e)}, hh)
                    continue
                if dec != ref:
                    out.violation("destinations-disagree", "%s:%s" % (fmt, k), {"a": ref[:300], "b": dec[:300]}, hh)
        out.outcomes["destinations-compared:" + fmt] += 1
        # ---- sources
        text = texts["StringIO"]
        data = texts["BytesIO"]
        sources = {
            "content-str": lambda: dict(content=text),
            "content-bytes": lambda: dict(content=data),
            "text-stream": lambda: dict(source=io.StringIO(text)),
            "binary-stream": lambda: dict(source=io.BytesIO(data)),
            "text-stream-nonseekable": lambda: dict(source=NSText(io.StringIO(text))),
            "binary-stream-nonseekable": lambda: dict(source=NSBytes(io.BytesIO(data))),
            "path": lambda: dict(source=path),
            "gb18030-text-file": lambda: dict(source=open(p16, "r", encoding="gb18030", newline="")),
            "tempfile-text-wrapper": lambda: dict(source=_tempfile_source(tmp, text)),
            "codecs-reader": lambda: dict(source=__import__("codecs").getreader("utf-8")(io.BytesIO(data))),
        }
        if base == "provn":
            # write-only format: every reader must fail, none may return a document
            for sname, mk in sources.items():
                kw = mk()
                if "source" in kw:
                    try:
                        r = prov.read(kw["source"])
                        out.violation("prov.read-returns-for-provn", sname,
                                      {"returned": repr(observe.dobs(r))[:300]}, hh)
                    except Exception:
                        out.outcomes["provn-read-fails"] += 1
                    out.transitions += 1
                _close(kw)
            out.nontrivial += 1
            return
        for sname, mk in sources.items():
            readers = [("deserialize", lambda kw: ProvDocument.deserialize(format=base, **kw))]
            if sname not in ("content-str", "content-bytes"):
                readers.append(("prov.read(format)", lambda kw: prov.read(kw["source"], format=base)))
                readers.append(("prov.read(FORMAT)", lambda kw: prov.read(kw["source"], format=base.upper())))
                readers.append(("prov.read()", lambda kw: prov.read(kw["source"])))
            for rname, rd in readers:
                out.transitions += 1
                out.evaluations += 1
                kw = mk()
                try:
                    got = rd(kw)
                except Exception as e:
                    _close(kw)
                    out.violation("reader-raises", "%s:%s:%s:%s" % (fmt, sname, rname, type(e).__name__),
                                  {"error": repr(e)[:300]}, hh)
                    continue
                _close(kw)
                if got is None or not same_doc(base, got, doc):
                    out.violation("reader-returns-other-document", "%s:%s:%s" % (fmt, sname, rname),
                                  {"got": "None" if got is None else repr(observe.dobs(got))[:400],
                                   "want": repr(observe.dobs(doc))[:400]}, hh)
                    continue
                out.outcomes["read-ok:%s" % rname] += 1
                # the document handed out is the caller's: editing it and reading the same source again (a fresh stream
                # over the same text, the same path) gives the document of the text again, as a new object
                try:
                    got.entity(QualifiedName(Namespace("zz6", "http://zz6.example/"), "edited-after-reading"))
                    kw = mk()
                    try:
                        again = rd(kw)
                    finally:
                        _close(kw)
                except Exception as e:
                    out.violation("reader-raises", "%s:%s:%s:second-read:%s" % (fmt, sname, rname, type(e).__name__),
                                  {"error": repr(e)[:300]}, hh)
                    continue
                out.transitions += 1
                if again is got or again is None or not same_doc(base, again, doc):
                    out.violation("second-read-returns-other-document", "%s:%s:%s" % (fmt, sname, rname),
                                  {"same_object": again is got,
                                   "got": "None" if again is None else repr(observe.dobs(again))[:400],
                                   "want": repr(observe.dobs(doc))[:400]}, hh)
                else:
                    out.outcomes["second-read-ok:%s" % rname] += 1
        # the path read above now receives ANOTHER document: every path reader returns that one
        other = ProvDocument()
        other.entity(QualifiedName(Namespace("zz6", "http://zz6.example/"), "other-document"))
        try:
            self.ser(other, fmt, path)
            for rname, rd in (("deserialize", lambda: ProvDocument.deserialize(path, format=base)),
                              ("prov.read(format)", lambda: prov.read(path, format=base)), ("prov.read()", lambda: prov.read(path))):
                got = rd()
                out.transitions += 1
                if got is None or not same_doc(base, got, other):
                    out.violation("path-rewritten-reader-returns-other-document", "%s:%s" % (fmt, rname),
                                  {"got": "None" if got is None else repr(observe.dobs(got))[:400]}, hh)
                else:
                    out.outcomes["path-rewritten-read-ok"] += 1
        except Exception as e:
            out.violation("reader-raises", "%s:path-rewritten:%s" % (fmt, type(e).__name__), {"error": repr(e)[:300]}, hh)
        out.nontrivial += 1
        out.conform += 1
        if len(out.samples) < 1:
            out.samples.append({"document": name, "format": fmt, "destinations": list(texts), "sources": list(sources)})

    def ops(self, hist):
        return list(hist)

    def render(self, hist):
        return "# document %r of provmc.props.c16.docs(), format %r" % (hist[1], hist[2])


LOCALE_ENV = {"LC_ALL": "C", "LANG": "C", "PYTHONUTF8": "0", "PYTHONCOERCECLOCALE": "0"}


def locale_child(outpath):
    """runs in a process whose default text encoding is ASCII (a stand-in for any non-UTF-8 locale): for the documents
    with non-ASCII content, a path destination must hold the same bytes as a binary stream, and a path source must
    read as the same document as a binary stream source"""
    import json
    import locale
    import logging
    logging.disable(logging.CRITICAL)
    viol = []
    enc = locale.getpreferredencoding(False)
    tmp = tempfile.mkdtemp(prefix="provmc_c16_")
    sp = C16("quick", {})
    cells = 0
    try:
        for name, doc in sp.docs:
            if name not in ("non-ascii-id-and-value", "value-kinds", "one-bundle", "unicode-line-separators"):
                continue
            for fmt in ("json", "json/ensure_ascii=False", "xml", "rdf", "provn"):
                base = VARIANTS.get(fmt, (fmt, {}))[0]
                cells += 1
                bio = io.BytesIO()
                try:
                    sp.ser(doc, fmt, bio)
                except Exception as e:
                    viol.append(("serialize-raises", "%s:binary-stream-under-%s-locale:%s" % (fmt, enc, type(e).__name__), {"error": repr(e)[:200]}, name, fmt))
                    continue
                want = bio.getvalue()
                path = os.path.join(tmp, "out%d.%s" % (cells, base))
                try:
                    sp.ser(doc, fmt, path)
                    with open(path, "rb") as f:
                        got = f.read()
                    same = (c14n(got) == c14n(want)) if base == "xml" else (got == want)
                    if not same:
                        viol.append(("destinations-disagree", "%s:path-under-%s-locale" % (fmt, enc), {"len": len(got), "expected_len": len(want)}, name, fmt))
                except Exception as e:
                    viol.append(("serialize-raises", "%s:path-under-%s-locale:%s" % (fmt, enc, type(e).__name__), {"error": repr(e)[:200]}, name, fmt))
                    continue
                if base == "provn":
                    continue
                with open(path, "wb") as f:
                    f.write(want)
                for rname, rd in (("deserialize", lambda: ProvDocument.deserialize(source=path, format=base)),
                                  ("prov.read(format)", lambda: prov.read(path, format=base)),
                                  ("prov.read()", lambda: prov.read(path))):
                    try:
                        got_doc = rd()
                    except Exception as e:
                        viol.append(("reader-raises", "%s:path-under-%s-locale:%s:%s" % (fmt, enc, rname, type(e).__name__), {"error": repr(e)[:200]}, name, fmt))
                        continue
                    if got_doc is None or not same_doc(base, got_doc, doc):
                        viol.append(("reader-returns-other-document", "%s:path-under-%s-locale:%s" % (fmt, enc, rname), {}, name, fmt))
    finally:
        shutil.rmtree(tmp, ignore_errors=True)
    with open(outpath, "w") as f:
        json.dump({"encoding": enc, "cells": cells, "violations": viol}, f)


def run_locale_dimension(out):
    """the locale as an environment dimension: one child process with an ASCII default encoding"""
    import json
    import subprocess
    import sys
    fd, outp = tempfile.mkstemp(prefix="provmc_c16_", suffix=".json")
    os.close(fd)
    env = dict(os.environ)
    env.update(LOCALE_ENV)
    env.pop("PYTHONIOENCODING", None)
    try:
        subprocess.run([sys.executable, "-B", "-m", "provmc.props.c16", "--locale-child", outp], env=env,
                       cwd=os.path.dirname(os.path.dirname(os.path.dirname(os.path.abspath(__file__)))),
                       check=True, timeout=600, stdout=subprocess.DEVNULL, stderr=subprocess.PIPE)
        with open(outp) as f:
            res = json.load(f)
    finally:
        os.unlink(outp)
    for clause, sig, detail, name, fmt in res["violations"]:
        out.violation(clause, sig, detail, ("c16-locale", name, fmt))
    out.transitions += res["cells"] * 4
    out.outcomes["cells-under-%s-locale" % res["encoding"]] += res["cells"]
    return res["encoding"]


def make_spec(tier, params):
    import logging
    logging.disable(logging.CRITICAL)  # rdflib logs warnings when prov.read() tries TriG on other formats
    return C16(tier, params)


def main(tier, seed):
    import time
    from .. import runner
    t0 = time.time()
    sp = make_spec(tier, {})
    items = [(i, f) for i in range(len(sp.docs)) for f in ("json", "xml", "rdf", "provn") + tuple(VARIANTS)]
    out = explore.pmap(__name__, tier, {}, "cell", items, chunk=1)
    out.evaluations -= len(items)
    locale_enc = run_locale_dimension(out)
    vs, nsig = runner.violations_json(sp, out)
    cov = {
        "states": out.nontrivial, "transitions": out.transitions, "traces_validated_against_impl": out.conform,
        "evaluations": out.evaluations, "distinct_nontrivial": out.nontrivial,
        "rule": ("full product of %d documents x 7 formats / writer-option variants x 6 destinations (returned str, StringIO, "
                 "GB18030 text file, tempfile text wrapper, BytesIO, path), then x 9 sources (content str/bytes, text/"
                 "binary stream seekable and not, GB18030 text file, tempfile text wrapper, path) x up to 4 readers (deserialize, prov.read with format in lower and "
                 "upper case, prov.read without format); distinct = (document, format) cell; non-trivial = all "
                 "destinations compared and all sources read" % len(sp.docs)),
        "samples": out.samples[:2], "exhaustive": True, "cells": len(items),
        "filters": dict(out.filters), "outcomes": dict(out.outcomes),
        "locale_dimension": "path destination and path source also under a default text encoding of %s (child process)" % locale_enc,
        "not_explored": ["default text encodings other than UTF-8 and ASCII (cp1252, latin-1: not installed here)"],
    }
    return {"property": "C16", "coverage": cov, "violations": vs, "signatures": nsig,
            "wall_s": round(time.time() - t0, 2)}


def replay(item, tier, seed):
    from .. import runner
    sp = make_spec(tier, {})
    out = explore.Out()
    h = item.get("history", [])
    names = [n for n, _ in sp.docs]
    if h and h[0] == "c16":
        sp.cell((names.index(h[1]), h[2]), out)
    elif h and h[0] == "c16-locale":
        run_locale_dimension(out)
    vs, _ = runner.violations_json(sp, out)
    vs = [v for v in vs if v["clause"] == item.get("clause") and v["sig"] == item.get("sig")] or vs
    return {"property": "C16", "coverage": {"states": 1, "transitions": 1, "traces_validated_against_impl": 1,
            "samples": [{"replayed": h}]}, "violations": vs, "wall_s": 0}


if __name__ == "__main__":
    import sys
    if len(sys.argv) == 3 and sys.argv[1] == "--locale-child":
        locale_child(sys.argv[2])
