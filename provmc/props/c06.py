"""C06 - PROV-N output is well-formed and denotes the same document.

The C01 enumerations (history exploration + shape sweep) under the PROV-N filters N1..N3 of the
quantifier; the printed text must parse under the W3C PROV-N grammar (independent recursive-
descent parser, provmc/indep/provn_reader.py) and the parsed document must equal the strict
observation of the original.
"""
import re

from .. import machine, observe
from ..indep import provn_reader
from . import c01

LOCAL_OK = re.compile(r"^[A-Za-z0-9_/][A-Za-z0-9_./\-]*$")
P = machine.PROV_URI
NO_ID_ATTR = {P + "Alternate", P + "Specialization", P + "Membership", P + "Mention"}
FORMALS = {
    P + "Alternate": {P + "alternate1", P + "alternate2"},
    P + "Specialization": {P + "specificEntity", P + "generalEntity"},
    P + "Membership": {P + "collection", P + "entity"},
    P + "Mention": {P + "specificEntity", P + "generalEntity", P + "bundle"},
}


def local_of(uri):
    for base in ("http://a/b/", "http://a/", "http://b/", "http://c/", "http://bn/", P, "http://www.w3.org/2001/XMLSchema#"):
        if uri.startswith(base):
            return uri[len(base):]
    return re.split(r"[/#]", uri)[-1]


def provn_filter(doc):
    top, bundles = observe.dobs(doc)
    recs = list(top)
    names = []
    for u, rs in bundles:
        recs.extend(rs)
        names.append(u)
    for t, i, attrs in recs:
        if i is not None:
            names.append(i)
        if t in NO_ID_ATTR:
            if i is not None or any(a not in FORMALS[t] for a, _ in attrs):
                return "N3-identified-or-attributed-" + t[len(P):].lower()
        for a, v in attrs:
            names.append(a)
            if v[0] == "qn":
                names.append(v[1])
            if v[0] == "lit" and v[2]:
                names.append(v[2])
    for n in names:
        l = local_of(n)
        if not LOCAL_OK.match(l) or l.endswith(".") or l.startswith("-"):
            return "N1-local-part-needs-escaping"
    return None


class C06(c01.C01):
    prop = "C06"
    mutating_checks = True  # judge() edits a record of the document after it has been printed

    def __init__(self, tier, params=None):
        super().__init__(tier, params)
        self.option_sets = [{}]
        self.sweep_option_sets = [{}]

    def judge(self, doc, out, hist, where, opts=None, extra=None):
        f = provn_filter(doc)
        if f is not None:
            out.filters[f] += 1
            return
        want = observe.dobs(doc)
        observe.export_decoy("provn")
        try:
            fresh_text = doc.get_provn()
            observe.touch(doc)  # reading a record through its accessors must not change what is printed
            text = doc.get_provn()
            if text != fresh_text:
                out.violation("provn-changes-after-reading-accessors", "text", {"where": where, "before": fresh_text[:600], "after": text[:600]}, hist, extra)
            text2 = doc.serialize(format="provn")
        except Exception as e:
            out.violation("provn-writer-raises", type(e).__name__, {"error": repr(e), "where": where}, hist, extra)
            return
        if text != text2:
            out.violation("get_provn-differs-from-serialize", "text", {"where": where}, hist, extra)
        got, err = provn_reader.read(text)
        if err is not None:
            out.violation("provn-not-in-grammar", re.sub(r"\d+", "N", re.sub(r"'[^']*'|\"[^\"]*\"", "_", err))[:70],
                          {"error": err, "where": where, "text": text[:2500]}, hist, extra)
        elif got == want:
            out.outcomes["provn-agree"] += 1
            self.judge_after_edit(doc, out, hist, where, extra)
        else:
            out.violation("provn-denotes-other-document", ",".join(observe.classify_diff(want, got)),
                          {"diff": observe.diff_obs(want, got), "where": where, "text": text[:2500]}, hist, extra)


    def judge_after_edit(self, doc, out, hist, where, extra):
        """the document was printed; now a record is edited through the editors that bypass add_attributes
        (add_asserted_type, set_time) and the document is printed again: the text denotes the edited document"""
        import datetime
        from prov.constants import PROV
        recs = list(doc.get_records()) + [r for b in doc.bundles for r in b.get_records()]
        recs = [r for r in recs if r.get_type().uri not in NO_ID_ATTR]
        if not recs:
            return
        r = recs[0]
        r.add_asserted_type(PROV["Plan"])
        for a in recs:
            if a.get_type().uri == P + "Activity" and a.get_endTime() is None:
                a.set_time(endTime=datetime.datetime(2031, 1, 2, 3, 4, 5))
                break
        want = observe.dobs(doc)
        text = doc.get_provn()
        got, err = provn_reader.read(text)
        if err is not None or got != want:
            out.violation("provn-stale-after-in-place-edit", "add_asserted_type/set_time",
                          {"error": err, "diff": None if err else observe.diff_obs(want, got), "where": where,
                           "text": text[:1500]}, hist, extra)
        else:
            out.outcomes["provn-agree-after-edit"] += 1


def make_spec(tier, params):
    return C06(tier, params)


def main(tier, seed):
    from .. import runner
    return runner.run_history_and_sweep(__name__, "C06", tier, seed,
                                        depth={"quick": 4, "thorough": 5}[tier], sweep="provn")


def replay(item, tier, seed):
    from .. import runner
    return runner.replay_generic(__name__, "C06", item, tier)
