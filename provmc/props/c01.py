"""C01 - PROV-JSON round trip preserves every document exactly.

(a) history exploration: BFS over the document machine, every new state is written as
    PROV-JSON and read back; strict URI-level, kind-aware multiset comparison.
(b) shape sweep: see sweeps.py (all record shapes x value kinds x ns environments x options)
"""
import json

from prov.model import ProvDocument

from .. import alphabets, explore, machine, observe, spec, sweeps


EDIT_NS = ("edt", "http://edited.example/ns#")


def edit_in_place(doc):
    """edits of a document that has been written already: through the editor that bypasses add_attributes
    (set_time: a new end time, a replaced start time), through add_attributes (an attribute in a namespace the
    document has not seen), and a new record"""
    import datetime
    from prov.identifier import Namespace
    ns = Namespace(*EDIT_NS)
    recs = list(doc.get_records()) + [r for b in doc.bundles for r in b.get_records()]
    for a in recs:
        if a.get_type().uri == machine.PROV_URI + "Activity":
            if a.get_endTime() is None:
                a.set_time(endTime=datetime.datetime(2031, 1, 2, 3, 4, 5))
            if a.get_startTime() is not None:
                a.set_time(startTime=datetime.datetime(2030, 6, 7, 8, 9, 10))
            break
    for r in recs:
        if r.get_type().uri not in NO_EXTRA_ATTRS:
            r.add_attributes([(ns["k"], "edited")])
            break
    (list(doc.bundles)[-1] if doc.bundles else doc).entity(ns["added"])


# relation kinds whose PROV-N / PROV-XML forms take no further attributes
NO_EXTRA_ATTRS = {machine.PROV_URI + k for k in ("Alternate", "Specialization", "Membership", "Mention")}


class C01(spec.Spec):
    prop = "C01"
    fmt = "json"
    mutating_checks = True  # judge() edits the document after it has been written

    def __init__(self, tier, params=None):
        super().__init__(tier, params)
        self.alphabet = alphabets.doc_history_alphabet(tier)
        self.option_sets = [{}]
        self.sweep_option_sets = [{}, {"indent": 2}, {"sort_keys": True}, {"ensure_ascii": False},
                                  {"indent": 2, "sort_keys": True, "ensure_ascii": False}]

    def roundtrip(self, doc, opts):
        text = doc.serialize(format=self.fmt, **opts)
        return text, ProvDocument.deserialize(content=text, format=self.fmt)

    def judge_after_edit(self, doc, out, hist, where, o, extra):
        """write -> edit in place -> write again, both times through ONE serializer object: the second text
        is the text of the edited document"""
        import io
        import prov.serializers
        try:
            ser = prov.serializers.get(self.fmt)(doc)
            ser.serialize(io.BytesIO(), **o)
            edit_in_place(doc)
            want = observe.dobs(doc)
            buf = io.BytesIO()
            ser.serialize(buf, **o)
            text = buf.getvalue().decode("utf-8")
            fresh = doc.serialize(format=self.fmt, **o)
            d2 = ProvDocument.deserialize(content=text, format=self.fmt)
        except Exception as e:
            out.violation("%s-second-write-after-edit-raises" % self.fmt, type(e).__name__,
                          {"error": "%s: %s" % (type(e).__name__, e), "options": o, "where": where}, hist, extra)
            return
        got = observe.dobs(d2)
        if got != want:
            out.violation("%s-stale-after-in-place-edit" % self.fmt, ",".join(observe.classify_diff(want, got)),
                          {"diff": observe.diff_obs(want, got), "options": o, "where": where, "text": text[:3000]},
                          hist, extra)
        elif text != fresh:
            out.violation("%s-serializer-object-reused-gives-other-text" % self.fmt, "after-edit",
                          {"options": o, "where": where, "reused": text[:1500], "fresh": fresh[:1500]}, hist, extra)
        else:
            out.outcomes["equal-after-edit"] += 1

    def judge(self, doc, out, hist, where, opts=None, extra=None):
        want = observe.dobs(doc)
        observe.touch(doc)
        all_equal = True
        for o in (self.option_sets if opts is None else opts):
            observe.export_decoy(self.fmt, **o)
            try:
                text, d2 = self.roundtrip(doc, o)
            except Exception as e:
                out.outcomes["exception"] += 1
                all_equal = False
                out.violation("%s-roundtrip-exception" % self.fmt, type(e).__name__ + observe.input_class(doc),
                              {"error": "%s: %s" % (type(e).__name__, e), "options": o, "where": where},
                              hist, extra)
                continue
            got = observe.dobs(d2)
            if got == want:
                out.outcomes["equal"] += 1
            else:
                out.outcomes["different"] += 1
                all_equal = False
                kinds = observe.classify_diff(want, got)
                out.violation("%s-roundtrip-content" % self.fmt, ",".join(kinds) + observe.input_class(doc),
                              {"diff": observe.diff_obs(want, got), "options": o, "where": where,
                               "text": text if len(text) < 3000 else text[:3000] + "..."},
                              hist, extra)
        if all_equal:
            self.judge_after_edit(doc, out, hist, where, o, extra)

    def check_state(self, st, out):
        # builder conformance against the reference model
        if observe.dobs(st.doc) != machine.model_dobs(st):
            out.filters["state-nonconformant(C03/C18)"] += 1
            return
        if st.ref.sc["D"].records or any(st.ref.sc[s].records for s in st.ref.bundle_uri):
            out.nontrivial += 1
        self.judge(st.doc, out, st.hist, "history")
        if len(out.samples) < 2 and len(st.hist) >= 3:
            out.samples.append({"history": self.ops(st.hist)})


def make_spec(tier, params):
    return C01(tier, params)


def main(tier, seed):
    from .. import runner
    return runner.run_history_and_sweep(__name__, "C01", tier, seed,
                                        depth={"quick": 4, "thorough": 5}[tier],
                                        sweep="json")


def replay(item, tier, seed):
    from .. import runner
    return runner.replay_generic(__name__, "C01", item, tier)
