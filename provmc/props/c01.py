"""C01 - PROV-JSON round trip preserves every document exactly.

(a) history exploration: BFS over the document machine, every new state is written as
    PROV-JSON and read back; strict URI-level, kind-aware multiset comparison.
(b) shape sweep: see sweeps.py (all record shapes x value kinds x ns environments x options)
"""
import json

from prov.model import ProvDocument

from .. import alphabets, explore, machine, observe, spec, sweeps


class C01(spec.Spec):
    prop = "C01"
    fmt = "json"

    def __init__(self, tier, params=None):
        super().__init__(tier, params)
        self.alphabet = alphabets.doc_history_alphabet(tier)
        self.option_sets = [{}]
        self.sweep_option_sets = [{}, {"indent": 2}, {"sort_keys": True}, {"ensure_ascii": False},
                                  {"indent": 2, "sort_keys": True, "ensure_ascii": False}]

    def roundtrip(self, doc, opts):
        text = doc.serialize(format=self.fmt, **opts)
        return text, ProvDocument.deserialize(content=text, format=self.fmt)

    def judge(self, doc, out, hist, where, opts=None, extra=None):
        want = observe.dobs(doc)
        observe.touch(doc)
        for o in (self.option_sets if opts is None else opts):
            observe.export_decoy(self.fmt, **o)
            try:
                text, d2 = self.roundtrip(doc, o)
            except Exception as e:
                out.outcomes["exception"] += 1
                out.violation("%s-roundtrip-exception" % self.fmt, type(e).__name__ + observe.input_class(doc),
                              {"error": "%s: %s" % (type(e).__name__, e), "options": o, "where": where},
                              hist, extra)
                continue
            got = observe.dobs(d2)
            if got == want:
                out.outcomes["equal"] += 1
            else:
                out.outcomes["different"] += 1
                kinds = observe.classify_diff(want, got)
                out.violation("%s-roundtrip-content" % self.fmt, ",".join(kinds) + observe.input_class(doc),
                              {"diff": observe.diff_obs(want, got), "options": o, "where": where,
                               "text": text if len(text) < 3000 else text[:3000] + "..."},
                              hist, extra)

    def check_state(self, st, out):
        # builder conformance against the reference model
        if observe.dobs(st.doc) != machine.model_dobs(st):
            out.filters["state-nonconformant(C03/C18)"] += 1
            return
        if st.ref.sc["D"].records or any(st.ref.sc[s].records for s in st.ref.bundle_uri):
            out.nontrivial += 1
        self.judge(st.doc, out, st.hist, "history")
        if len(out.samples) < 2 and len(st.hist) >= 3:
            out.samples.append({"history": self.ops(st.hist)})


def make_spec(tier, params):
    return C01(tier, params)


def main(tier, seed):
    from .. import runner
    return runner.run_history_and_sweep(__name__, "C01", tier, seed,
                                        depth={"quick": 4, "thorough": 5}[tier],
                                        sweep="json")


def replay(item, tier, seed):
    from .. import runner
    return runner.replay_generic(__name__, "C01", item, tier)
