"""C08 - unified() merges exactly the records sharing an identifier (per kind), losing nothing.

BFS over histories that make identifiers collide: the same identifier reached through a
prefix, an alias prefix and the full URI, on records of one kind, of two element kinds and of
two relation kinds, with overlapping / disjoint / conflicting attributes, in the document
and in a bundle.  Oracle: a reference `unified` computed on strict observations.
"""
from prov.model import ProvException

from .. import explore, machine, observe, spec
from ..alphabets import S, Q, BARE, URI
from ..machine import PROV_URI

SINGLE = {PROV_URI + n for n in (
    "entity", "activity", "trigger", "informed", "informant", "starter", "ender", "agent", "plan", "delegate",
    "responsible", "generatedEntity", "usedEntity", "generation", "usage", "specificEntity", "generalEntity",
    "alternate1", "alternate2", "bundle", "influencee", "influencer", "collection", "time", "startTime", "endTime")}


def ref_unified(records):
    """reference unification of one container: (ordered list of record obs, conflict?)"""
    groups = {}
    order = []
    for r in records:
        t, i, attrs = r
        if i is None:
            order.append(("anon", r))
            continue
        key = (i, t)
        if key not in groups:
            groups[key] = set(attrs)
            order.append(("grp", key))
        else:
            groups[key] |= set(attrs)
    conflict = False
    for key, attrs in groups.items():
        seen = {}
        for n, v in attrs:
            if n in SINGLE:
                if n in seen and seen[n] != v:
                    conflict = True
                seen[n] = v
    out = []
    for kind, x in order:
        if kind == "anon":
            out.append(x)
        else:
            out.append((x[1], x[0], tuple(sorted(groups[x], key=repr))))
    return out, conflict


_DECOYS = []
_CALLS = [0]


def decoys():
    """documents in which the identifiers of the alphabet are repeated with other attribute values (in the document
    and in a bundle), so that whatever a unified() call leaves behind meets the judged call"""
    if not _DECOYS:
        import datetime
        from prov.model import ProvDocument
        for extra in ({"ex:decoy": 1}, {}):
            d = ProvDocument()
            d.add_namespace("ex", machine.U["A"])
            for scope in (d, d.bundle("ex:b1")):
                for l in ("x", "y"):
                    scope.entity("ex:" + l)
                    scope.entity("ex:" + l, dict(extra, **{"ex:k": 7}))
                    scope.agent("ex:" + l)
                    scope.agent("ex:" + l, {"ex:k": "decoy"})
                scope.activity("ex:x")
                scope.activity("ex:x", datetime.datetime(2001, 1, 1))
                scope.generation("ex:x", "ex:a1", identifier="ex:g")
                scope.generation("ex:x", "ex:a1", identifier="ex:g", other_attributes={"ex:k": 7})
            _DECOYS.append(d)
    return _DECOYS


# (the default namespace has the URI of `ex`: a bare name is one more spelling - one that PRINTS differently - of ex:x)
PRELUDE = (("ns", "D", "ex", "A"), ("ns", "D", "q", "A"), ("def", "D", "A"), ("bun", "B1", ("A", "b1", S("ex"))))


class C08(spec.Spec):
    prop = "C08"
    judges_nonconformant_calls = True  # see nonconformance()

    def __init__(self, tier, params=None):
        super().__init__(tier, params)
        ops = []
        for scope in ("D", "B1"):
            x, xq, xu, y = ("A", "x", S("ex")), ("A", "x", S("q")), ("A", "x", URI), ("A", "y", S("ex"))
            a1, a2, g = ("A", "a1", S("ex")), ("A", "a2", S("ex")), ("A", "g", S("ex"))
            ops += [
                ("el", scope, "entity", x), ("el", scope, "entity", xq), ("el", scope, "entity", xu),
                ("el", scope, "entity", y), ("el", scope, "agent", x), ("el", scope, "entity", ("A", "x", BARE)),
                ("el", scope, "activity", x, ("t1", None)), ("el", scope, "activity", x, ("t2", None)),
                ("el", scope, "activity", x, (None, "t1")),
                ("rel", scope, "generation", g, (x, a1, None)), ("rel", scope, "generation", g, (x, a2, None)),
                ("rel", scope, "generation", None, (x, a1, None)),
                ("rel", scope, "usage", g, (a1, x, None)),
            ]
        # identified memberships with one identifier: without a member, with one, with another collection
        m, c1, c2, e1 = ("A", "m", S("ex")), ("A", "c1", S("ex")), ("A", "c2", S("ex")), ("A", "e1", S("ex"))
        ops += [("rel", "D", "membership", m, (c1, None)), ("rel", "D", "membership", m, (c1, e1)),
                ("rel", "D", "membership", m, (c2, None))]
        ops += [("at", ("A", "k", S("ex")), "i_1"), ("at", ("A", "k", S("ex")), "i_2"),
                ("at", ("P", "type", Q("prov")), "q_prov")]
        # look-ups (of an absent, of a present identifier) interleaved with the additions
        ops += [("get", "D", ("A", "nothere", S("ex"))), ("get", "D", ("A", "nothere2", S("ex"))),
                ("get", "D", ("A", "x", S("ex"))), ("get", "B1", ("A", "nothere", S("ex")))]
        # the editor that bypasses add_attributes, and a reading operation in the middle of the history
        ops += [("settime", "start", "t2"), ("settime", "end", "t1"), ("read",)]
        self.alphabet = ops

    def nonconformance(self, st, hist, op, exc, out):
        """the record's own reading API disagrees with the calls made (st.ref is the model after the call): unified()
        is judged against the calls, i.e. against the reference model, instead of against that reading"""
        out.filters["builder-nonconformance(C03/C18)"] += 1
        if op[0] not in ("settime", "at", "asrt"):
            return
        ref = st.ref
        top = tuple(machine.model_robs(r) for r in ref.sc["D"].records)
        bundles = tuple((ref.bundle_uri[slot], tuple(machine.model_robs(r) for r in ref.sc[slot].records))
                        for slot in st.bundles)
        st.hist = hist
        self.check_state(st, out, source=(top, bundles))

    def build(self, hist):
        st = machine.State()
        for op in PRELUDE:
            machine.apply(st, op, self.values)
        for i in hist:
            machine.apply(st, self.alphabet[i], self.values)
        st.hist = tuple(hist)
        return st

    def fresh(self, hist):
        st = machine.State()
        for op in PRELUDE + tuple(self._as_ops(hist)):
            machine.apply(st, op, self.values)
        st.hist = tuple(hist)
        return st

    def render(self, hist):
        ops = list(PRELUDE) + self._as_ops(hist)
        return machine.render(ops, range(len(ops)), self.values) + "\nu = d.unified()"

    def build_case(self, ops, out):
        if tuple(ops[:len(PRELUDE)]) != PRELUDE:
            ops = PRELUDE + tuple(ops)
        return spec.Spec.build_case(self, ops, out)

    def ops(self, hist):
        return [repr(o) for o in list(PRELUDE) + self._as_ops(hist)]

    def check_state(self, st, out, source=None):
        doc = st.doc
        hist = st.hist
        before = (observe.dobs_ordered(doc), observe.nsobs(doc))
        top, bundles = before[0] if source is None else source
        want_top, conflict = ref_unified(list(top))
        want_b = {}
        for uri, rs in bundles:
            w, c = ref_unified(list(rs))
            want_b[uri] = w
            conflict = conflict or c
        multi = len(top) != len(want_top) or any(len(rs) != len(want_b[u]) for u, rs in bundles)
        if multi or conflict:
            out.nontrivial += 1
        # call history: other documents that repeat the alphabet's identifiers were unified before
        # (the first judged call of a process - hence every replay - and every 64th after it)
        _CALLS[0] += 1
        for decoy in (decoys() if _CALLS[0] % 64 == 1 else ()):
            try:
                decoy.unified()
            except ProvException:
                pass
        try:
            u = doc.unified()
        except ProvException as e:
            if conflict:
                out.outcomes["conflict-refused"] += 1
            else:
                out.violation("spurious-exception", "unified", {"error": str(e)}, hist)
            u = None
        except Exception as e:
            out.violation("unexpected-exception", type(e).__name__, {"error": repr(e)}, hist)
            u = None
        if u is not None:
            if conflict:
                out.violation("conflict-not-refused", "unified",
                              {"got": repr(observe.dobs_ordered(u))[:600]}, hist)
            else:
                got_top, got_b = observe.dobs_ordered(u)
                got_bd = {}
                for uri, rs in got_b:
                    got_bd.setdefault(uri, []).extend(rs)
                if list(got_top) != want_top or got_bd != want_b:
                    kinds = observe.classify_diff(
                        (observe.mset(want_top), tuple(sorted((k, observe.mset(v)) for k, v in want_b.items()))),
                        (observe.mset(got_top), tuple(sorted((k, observe.mset(v)) for k, v in got_bd.items()))))
                    out.violation("unified-differs-from-reference", ",".join(kinds) or "order",
                                  {"want": repr((want_top, want_b))[:900], "got": repr((got_top, got_bd))[:900]}, hist)
                else:
                    out.outcomes["unified-ok" + ("-merged" if multi else "")] += 1
                # idempotence
                try:
                    uu = u.unified()
                    if observe.dobs_ordered(uu) != observe.dobs_ordered(u):
                        out.violation("not-idempotent", "unified", {}, hist)
                except Exception as e:
                    out.violation("not-idempotent", "raises", {"error": repr(e)}, hist)
        # bundle-level unified()
        for b in doc.bundles:
            w = want_b[b.identifier.uri]
            _, c = ref_unified(observe.records_obs(b) if source is None else list(dict(bundles)[b.identifier.uri]))
            try:
                ub = b.unified()
            except ProvException:
                if not c:
                    out.violation("spurious-exception", "bundle.unified", {}, hist)
                continue
            if c:
                out.violation("conflict-not-refused", "bundle.unified", {}, hist)
            elif observe.records_obs(ub) != w or ub.identifier is None or ub.identifier.uri != b.identifier.uri:
                out.violation("unified-differs-from-reference", "bundle.unified",
                              {"want": repr(w)[:600], "got": repr(observe.records_obs(ub))[:600]}, hist)
        after = (observe.dobs_ordered(doc), observe.nsobs(doc))
        if after != before:
            out.violation("source-changed", "content" if after[0] != before[0] else "namespaces",
                          {"before": repr(before)[:600], "after": repr(after)[:600]}, hist)
        if len(out.samples) < 2 and len(hist) >= 3:
            out.samples.append({"history": self.ops(hist)})


def make_spec(tier, params):
    return C08(tier, params)


def main(tier, seed):
    from .. import runner
    return runner.run_history(
        __name__, "C08", tier, seed, {"quick": 4, "thorough": 5}[tier],
        rule="BFS over histories of <= depth record/attribute additions colliding on identifiers (prefix, alias "
             "prefix, full URI; element kinds; relation kinds; document and bundle); non-trivial = the reference "
             "unification merges something or finds a conflict")


def replay(item, tier, seed):
    from .. import runner
    return runner.replay_generic(__name__, "C08", item, tier)
