"""C14 - graph conversion mirrors the document and converts back to its unified form.

BFS over bundle-free histories: elements declared or not, the same identifier as entity and
agent, relations of eight kinds between any two names incl. self-loops, parallel duplicates,
identified / anonymous, one endpoint missing, extra attributes.  Oracle: a reference graph
computed from the reference unification (C08's) of the strict observation.
"""
from collections import Counter

from prov.graph import graph_to_prov, prov_to_graph
from prov.model import ProvException

from .. import machine, observe, spec
from ..alphabets import S, Q
from ..machine import PROV_URI
from .c08 import ref_unified

ELEMENT_TYPES = {PROV_URI + "Entity", PROV_URI + "Activity", PROV_URI + "Agent"}
FIRST_TWO = {
    "Generation": ("entity", "activity"), "Usage": ("activity", "entity"), "Communication": ("informed", "informant"),
    "Start": ("activity", "trigger"), "End": ("activity", "trigger"), "Invalidation": ("entity", "activity"),
    "Derivation": ("generatedEntity", "usedEntity"), "Attribution": ("entity", "agent"),
    "Association": ("activity", "agent"), "Delegation": ("delegate", "responsible"),
    "Influence": ("influencee", "influencer"), "Specialization": ("specificEntity", "generalEntity"),
    "Alternate": ("alternate1", "alternate2"), "Mention": ("specificEntity", "generalEntity"),
    "Membership": ("collection", "entity"),
}
PRELUDE = (("ns", "D", "ex", "A"),)


def n(local):
    return ("A", local, S("ex"))


def alphabet():
    e1, e2, e3, a1, a9, g1 = n("e1"), n("e2"), n("e3"), n("a1"), n("a9"), n("g1")
    return [
        ("el", "D", "entity", e1), ("el", "D", "entity", e2), ("el", "D", "activity", a1, ("t1", None)),
        ("el", "D", "agent", g1), ("el", "D", "agent", e1),
        ("rel", "D", "generation", None, (e1, a1, None)),
        ("rel", "D", "generation", n("gen"), (e2, a1, "t3")),
        ("rel", "D", "generation", None, (e1, None, None)),
        ("rel", "D", "generation", None, (e3, a1, None)),
        ("rel", "D", "usage", None, (a1, e1, None)),
        ("rel", "D", "usage", n("use"), (a9, e1, None)),
        ("rel", "D", "derivation", None, (e2, e1, None, None, None)),
        ("rel", "D", "derivation", None, (e1, e1, a1, None, None)),
        ("rel", "D", "attribution", None, (e1, g1)),
        ("rel", "D", "association", n("assoc"), (a1, g1, e2)),
        ("rel", "D", "association", None, (a1, None, None)),
        ("rel", "D", "communication", None, (a1, a1)),
        ("rel", "D", "influence", None, (e2, e1)),
        ("rel", "D", "influence", None, (e3, e1)),
        ("rel", "D", "influence", None, (e1, e1)),
        ("rel", "D", "membership", None, (e1, e2)),
        ("at", ("A", "k", S("ex")), "s_a"),
        # attributes whose local names are words a graph library uses as keys of its node / edge data
        ("at", ("A", "relation", S("ex")), "s_a"), ("at", ("A", "key", S("ex")), "i_2"), ("at", ("A", "weight", S("ex")), "f_2_5"),
        # the identifier of the generation above, on another relation kind between the same two nodes
        ("rel", "D", "invalidation", n("gen"), (e2, a1, None)),
        # an undeclared name (g1 unless declared) referenced in roles of different inferred kinds
        ("rel", "D", "usage", None, (a1, g1, None)),
        ("rel", "D", "communication", None, (a1, e3)),
        # a relation lacking its second argument while a later formal argument names an element
        ("rel", "D", "association", None, (a1, None, e2)),
        ("rel", "D", "start", None, (a1, None, a9, None)),
        # a relation whose identifier is also the name of an undeclared endpoint (e3)
        ("rel", "D", "usage", e3, (a1, e1, None)),
        # self-loops whose two roles imply DIFFERENT kinds, on names that may be undeclared (one node, one loop)
        ("rel", "D", "attribution", None, (e3, e3)),
        ("rel", "D", "usage", None, (a9, a9, None)),
    ]


# PROV-DM: the kind of element each of the two ends of a relation is (constraints 50-ish of PROV-CONSTRAINTS)
END_KINDS = {
    "Generation": ("Entity", "Activity"), "Usage": ("Activity", "Entity"), "Communication": ("Activity", "Activity"),
    "Start": ("Activity", "Entity"), "End": ("Activity", "Entity"), "Invalidation": ("Entity", "Activity"),
    "Derivation": ("Entity", "Entity"), "Attribution": ("Entity", "Agent"), "Association": ("Activity", "Agent"),
    "Delegation": ("Agent", "Agent"), "Specialization": ("Entity", "Entity"), "Alternate": ("Entity", "Entity"),
    "Mention": ("Entity", "Entity"), "Membership": ("Entity", "Entity"),
}


_DECOYS = []


def decoys():
    """two documents that use every name of the alphabet, undeclared, as an agent resp. as an activity"""
    if not _DECOYS:
        from prov.model import ProvDocument
        for role in ("agent", "activity"):
            d = ProvDocument()
            d.add_namespace("ex", machine.U["A"])
            for l in ("e1", "e2", "e3", "a1", "a9", "g1"):
                if role == "agent":
                    d.attribution("ex:decoy", "ex:" + l)
                else:
                    d.communication("ex:" + l, "ex:decoy2")
            _DECOYS.append(d)
    return _DECOYS


def endpoints(rec):
    t, i, attrs = rec
    names = FIRST_TWO[t[len(PROV_URI):]]
    d = dict((a, v) for a, v in attrs)
    a = d.get(PROV_URI + names[0])
    b = d.get(PROV_URI + names[1])
    return (None if a is None else a[1], None if b is None else b[1])


class C14(spec.Spec):
    prop = "C14"

    def __init__(self, tier, params=None):
        super().__init__(tier, params)
        self.alphabet = alphabet()

    def build(self, hist):
        st = machine.State()
        for op in PRELUDE:
            machine.apply(st, op, self.values)
        for i in hist:
            machine.apply(st, self.alphabet[i], self.values)
        st.hist = tuple(hist)
        return st

    def _as_ops(self, hist):
        ops = spec.Spec._as_ops(self, hist)
        if tuple(ops[:len(PRELUDE)]) != PRELUDE:
            ops = list(PRELUDE) + ops
        return ops

    def check_state(self, st, out):
        doc = st.doc
        hist = st.hist
        top, _ = observe.dobs_ordered(doc)
        want_u, conflict = ref_unified(list(top))
        if conflict:
            out.filters["unification-raises"] += 1
            return
        elements = [r for r in want_u if r[0] in ELEMENT_TYPES]
        element_uris = {r[1] for r in elements}
        relations = [r for r in want_u if r[0] not in ELEMENT_TYPES]
        want_edges = []
        inferred = set()
        roles = {}
        unclaimed = []
        unclaimed_uris = set()
        for r in relations:
            a, b = endpoints(r)
            if a is None or b is None:
                continue
            if r[0] == PROV_URI + "Influence" and (a not in element_uris or b not in element_uris):
                # not claimed (documented as skipped): nothing is demanded of this relation
                out.filters["influence-with-undeclared-endpoint(relation not judged)"] += 1
                unclaimed.append(r)
                unclaimed_uris.update(x for x in (a, b) if x not in element_uris)
                continue
            want_edges.append((a, b, r))
            for x, kind in zip((a, b), END_KINDS.get(r[0][len(PROV_URI):], (None, None))):
                if x not in element_uris:
                    inferred.add(x)
                    roles.setdefault(x, set()).add(PROV_URI + kind)
        try:
            # call history: another document, in which the same names play other roles, is converted first
            for decoy in decoys():
                prov_to_graph(decoy)
            g = prov_to_graph(doc)
        except Exception as e:
            out.violation("prov_to_graph-raises", type(e).__name__, {"error": repr(e)}, hist)
            return
        out.transitions += 1
        if not hasattr(g, "is_multigraph") or not g.is_multigraph() or not g.is_directed():
            out.violation("not-a-directed-multigraph", type(g).__name__, {}, hist)
            return
        nodes = list(g.nodes())
        declared = [x for x in nodes if x.bundle is not None]
        undeclared = [x for x in nodes if x.bundle is None]
        got_nodes = Counter(observe.robs(x) for x in declared)
        if got_nodes != Counter(elements):
            out.violation("nodes-differ-from-unified-elements", _cdiff(Counter(elements), got_nodes),
                          {"want": repr(elements)[:600], "got": repr(sorted(got_nodes.elements()))[:600]}, hist)
            return
        got_inferred = Counter(x.identifier.uri for x in undeclared
                               if x.identifier.uri in inferred or x.identifier.uri not in unclaimed_uris)
        if got_inferred != Counter(inferred):
            out.violation("inferred-nodes-differ", _cdiff(Counter(inferred), got_inferred),
                          {"want": sorted(inferred), "got": sorted(got_inferred.elements())}, hist)
            return
        # an inferred node is of a kind that one of the roles it plays in THIS document implies
        for x in undeclared:
            u = x.identifier.uri
            if u in roles and x.get_type().uri not in roles[u]:
                out.violation("inferred-node-of-wrong-kind", "%s-not-in-%s" % (
                    x.get_type().uri[len(PROV_URI):], "+".join(sorted(k[len(PROV_URI):] for k in roles[u]))),
                    {"node": u, "kind": x.get_type().uri, "roles": sorted(roles[u])}, hist)
                return
        got_edges = Counter()
        for u, v, data in g.edges(data=True):
            rel = data.get("relation")
            if rel is None:
                out.violation("edge-without-relation", "edge", {}, hist)
                return
            if not hasattr(rel, "formal_attributes"):
                out.violation("edge-carries-something-else-than-its-relation", type(rel).__name__, {"carried": repr(rel)[:200]}, hist)
                return
            if observe.robs(rel) in unclaimed:
                continue
            got_edges[(u.identifier.uri, v.identifier.uri, observe.robs(rel))] += 1
        if got_edges != Counter(want_edges):
            out.violation("edges-differ", _cdiff(Counter(want_edges), got_edges),
                          {"want": repr(want_edges)[:700], "got": repr(sorted(got_edges.elements(), key=repr))[:700]}, hist)
            return
        # and back
        try:
            back = graph_to_prov(g)
        except Exception as e:
            out.violation("graph_to_prov-raises", type(e).__name__, {"error": repr(e)}, hist)
            return
        want_back = (observe.mset(elements + [r for _, _, r in want_edges]), ())
        got_back = observe.dobs(back)
        if unclaimed:
            got_back = (observe.mset([r for r in got_back[0] if r not in unclaimed]), got_back[1])
        if got_back != want_back:
            out.violation("graph_to_prov-differs-from-restricted-unified",
                          ",".join(observe.classify_diff(want_back, got_back)),
                          {"diff": observe.diff_obs(want_back, got_back)}, hist)
            return
        out.outcomes["graph-ok"] += 1
        if want_edges:
            out.nontrivial += 1
        if len(out.samples) < 2 and len(hist) >= 3 and want_edges:
            out.samples.append({"history": self.ops(hist), "nodes": len(nodes), "edges": len(want_edges)})


def _cdiff(want, got):
    miss, extra = want - got, got - want
    return "missing%d-extra%d" % (min(2, sum(miss.values())), min(2, sum(extra.values())))


def make_spec(tier, params):
    return C14(tier, params)


def main(tier, seed):
    from .. import runner
    return runner.run_history(
        __name__, "C14", tier, seed, {"quick": 3, "thorough": 4}[tier],
        rule="BFS over bundle-free histories of <= depth records/attributes (31-letter alphabet: declared and "
             "undeclared endpoints, entity+agent with one identifier, self-loops, parallel duplicates, identified and "
             "anonymous relations, missing endpoints); non-trivial = the reference graph has at least one edge")


def replay(item, tier, seed):
    from .. import runner
    return runner.replay_generic(__name__, "C14", item, tier)
