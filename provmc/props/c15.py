"""C15 - DOT output is always valid Graphviz: one node per element, one path per relation.

Documents: a product of graph structures (declared / merely referenced endpoints, entity and
agent under one identifier, direct / identified / annotated / n-ary relations, self-loops,
parallel relations, 0-2 bundles sharing URIs with the document) and of markup-significant
texts (quotes, angle brackets, ampersands, entities, backslashes, newlines, non-ASCII, tags)
placed in labels, attribute values, URI values, attribute names and identifiers; thorough adds
every state of a bundle-aware history alphabet.  Each document x all 80 option sets.

Oracle (Graphviz 2.43 `dot -Tdot_json` is the independent reader): the text is accepted; one
cluster per bundle; exactly one element-styled node per unified element record, inside its
bundle's cluster; a node for every merely referenced name; per two-ended relation exactly one
path tail->head with the right URLs (direct, or through one point node); n-ary legs and
annotation tables exactly as the options demand; HTML-like labels consist of exactly the
expected skeleton with the expected text - anything else is injected markup.
"""
import datetime
import html
import itertools
import xml.etree.ElementTree as ET
from collections import Counter

from prov.constants import PROV, PROV_ATTRIBUTE_QNAMES
from prov.identifier import Identifier, Namespace, QualifiedName
from prov.model import Literal, ProvDocument, ProvException
from prov import dot as provdot

from .. import explore, machine, observe, spec
from ..indep import dotjson
from ..machine import RELATIONS, PROV_URI
from .c08 import ref_unified

A = "http://a/"
AMP = "http://a/q?x=1&y="
T0 = datetime.datetime(2012, 3, 4, 5, 6, 7)

TEXTS = ["x", 'a"b', "a<b>c", "a&b", "a&amp;b", "tail\\", "a\\nb", "l1\nl2", "é漢", "<b>bold</b>", "]]>", "a>b",
         "<br/>", "&#60;", "a'b",
         # backslash sequences that Graphviz's escString substitution gives a meaning to (\N node name, \G graph
         # name, \E edge name, \\ one backslash, \l \r line breaks)
         "C:\\New\\Games\\Easy", "\\\\server\\share", "a\\lb\\rc"]
POSITIONS = ["label", "value", "uri-value", "attr-name", "identifier", "bundle-id", "qname-value"]


def mk_value(v):
    if isinstance(v, tuple):
        k = v[0]
        if k == "uri":
            return Identifier(v[1])
        if k == "qn":
            return QualifiedName(Namespace(v[1], v[2]), v[3])
        if k == "lang":
            return Literal(v[1], langtag=v[2])
        if k == "time":
            return T0
    return v


def build_doc(recipe):
    d = ProvDocument()
    conts = {"D": d}
    nss = {"ex": Namespace("ex", A), "amp": Namespace("amp", AMP)}

    def qn(name):
        if isinstance(name, tuple):
            return QualifiedName(nss[name[0]], name[1])
        return QualifiedName(nss["ex"], name)
    for step in recipe:
        k = step[0]
        if k == "bundle":
            conts[step[1]] = d.bundle(qn(step[1]))
        elif k == "el":
            _, c, kind, local, attrs = step
            getattr(conts[c], kind)(qn(local), other_attributes=[
                (qn(a) if not isinstance(a, str) or ":" not in a else a, mk_value(v)) for a, v in attrs])
        elif k == "rel":
            _, c, kind, idl, args, attrs = step
            tname, formals = RELATIONS[kind]
            pairs = []
            for fa, a in zip(formals, args):
                if a is None:
                    continue
                pairs.append((PROV[fa], T0 if a == "t" else qn(a)))
            conts[c].new_record(PROV[tname], None if idl is None else qn(idl), pairs,
                                [(qn(a) if not isinstance(a, str) or ":" not in a else a, mk_value(v)) for a, v in attrs])
    return d


def structures():
    """base graph structures (recipes)"""
    E = lambda c, l, attrs=(): ("el", c, "entity", l, attrs)
    AC = lambda c, l, attrs=(): ("el", c, "activity", l, attrs)
    AG = lambda c, l, attrs=(): ("el", c, "agent", l, attrs)
    R = lambda c, kind, idl, args, attrs=(): ("rel", c, kind, idl, args, attrs)
    lab = (("prov:label", "lab"),)
    out = []
    out.append(("empty", ()))
    out.append(("one-entity", (E("D", "e1"),)))
    out.append(("entity-attrs", (E("D", "e1", (("prov:label", "lab"), ("k", "v"), ("k", 2), ("prov:type", ("qn", "ex", A, "T")),
                                              ("u", ("uri", "http://c/res")), ("t", ("time",)), ("l", ("lang", "bon", "fr")))),)))
    out.append(("entity+agent-one-id", (E("D", "e1", lab), AG("D", "e1"))))
    out.append(("duplicate-records", (E("D", "e1", lab), E("D", "e1", (("k", "v"),)))))
    out.append(("gen-direct", (E("D", "e1"), AC("D", "a1"), R("D", "generation", None, ("e1", "a1", None)))))
    out.append(("gen-undeclared-ends", (R("D", "generation", None, ("e1", "a1", None)),)))
    out.append(("gen-identified-timed", (E("D", "e1"), AC("D", "a1"), R("D", "generation", "g", ("e1", "a1", "t")))))
    out.append(("gen-annotated", (E("D", "e1"), AC("D", "a1"), R("D", "generation", None, ("e1", "a1", None), (("k", "v"),)))))
    out.append(("gen-one-ended", (E("D", "e1"), R("D", "generation", None, ("e1", None, None)))))
    out.append(("usage+gen", (E("D", "e1"), AC("D", "a1"), R("D", "usage", None, ("a1", "e1", None)),
                              R("D", "generation", None, ("e1", "a1", None)))))
    out.append(("parallel", (E("D", "e1"), AC("D", "a1"), R("D", "generation", None, ("e1", "a1", None)),
                             R("D", "generation", None, ("e1", "a1", None)))))
    out.append(("self-loop", (AC("D", "a1"), R("D", "communication", None, ("a1", "a1")))))
    out.append(("derivation-nary", (E("D", "e1"), E("D", "e2"), AC("D", "a1"),
                                    R("D", "derivation", None, ("e2", "e1", "a1", "g1", "u1")))))
    out.append(("derivation-binary", (E("D", "e1"), E("D", "e2"), R("D", "derivation", None, ("e2", "e1", None, None, None)))))
    out.append(("start-nary", (AC("D", "a1"), E("D", "e1"), R("D", "start", None, ("a1", "e1", "a2", "t")))))
    out.append(("association-plan", (AC("D", "a1"), AG("D", "g1"), R("D", "association", "as", ("a1", "g1", "pl"),
                                                                      (("prov:role", "boss"),)))))
    out.append(("delegation", (AG("D", "g1"), AG("D", "g2"), R("D", "delegation", None, ("g2", "g1", "a1")))))
    out.append(("membership", (E("D", "c1"), E("D", "e1"), R("D", "membership", None, ("c1", "e1")))))
    out.append(("mention", (E("D", "e1"), R("D", "mention", None, ("e2", "e1", "b1")))))
    out.append(("influence", (E("D", "e1"), E("D", "e2"), R("D", "influence", None, ("e2", "e1")))))
    out.append(("spec+alt", (E("D", "e1"), E("D", "e2"), R("D", "specialization", None, ("e2", "e1")),
                             R("D", "alternate", None, ("e1", "e2")))))
    out.append(("bundle-empty", (("bundle", "b1"),)))
    out.append(("bundle-one", (("bundle", "b1"), E("b1", "e1", lab))))
    out.append(("duplicates-in-bundle-only", (E("D", "top"), ("bundle", "b1"), E("b1", "e1", (("colour", "red"),)),
                                              E("b1", "e1", (("size", 42),)), AC("b1", "a1"),
                                              R("b1", "usage", "u", ("a1", "e1", None), (("k", "v"),)),
                                              R("b1", "usage", "u", ("a1", "e1", None), (("k2", 2),)))))
    out.append(("bundle-same-uri-as-doc", (E("D", "e1", lab), ("bundle", "b1"), E("b1", "e1"), AC("b1", "a1"),
                                           R("b1", "generation", None, ("e1", "a1", None)))))
    out.append(("doc-relation-to-bundle-uri", (E("D", "e1"), AC("D", "a1"), ("bundle", "b1"), E("b1", "e1"),
                                               R("D", "generation", None, ("e1", "a1", None)))))
    out.append(("bundle-references-doc-node", (E("D", "e1"), ("bundle", "b1"), AC("b1", "a1"),
                                               R("b1", "usage", None, ("a1", "e1", None), (("k", "v"),)))))
    out.append(("two-bundles", (("bundle", "b1"), ("bundle", "b2"), E("b1", "e1"), E("b2", "e1"), AC("b2", "a1"),
                                R("b1", "generation", None, ("e1", "a1", None)),
                                R("b2", "generation", "g", ("e1", "a1", "t")))))
    out.append(("two-bundles-nary", (E("D", "pl"), ("bundle", "b1"), ("bundle", "b2"), AC("b1", "a1"), AG("b2", "g1"),
                                     R("b1", "association", None, ("a1", "g1", "pl")))))
    out.append(("annotated-relations-in-three-scopes",
                (E("D", "e1"), AC("D", "a1"), R("D", "generation", None, ("e1", "a1", "t")),
                 R("D", "usage", None, ("a1", "e1", None), (("k", "v"),)),
                 ("bundle", "b1"), E("b1", "e2"), AC("b1", "a2"), R("b1", "generation", None, ("e2", "a2", "t")),
                 R("b1", "derivation", None, ("e2", "e3", "a2", None, None)),
                 ("bundle", "b2"), E("b2", "e4"), AC("b2", "a4"), R("b2", "usage", "u", ("a4", "e4", "t"), (("k", 1),)),
                 R("b2", "start", None, ("a4", "e4", "a5", None)))))
    # relations in three bundles and the document that refer to names declared (or first mentioned) in other scopes
    out.append(("cross-scope-references",
                (R("D", "alternate", None, ("n5", "nX"), (("k", "v"),)),
                 ("bundle", "b0"), E("b0", "o1"), R("b0", "alternate", None, ("n4", "n4"), (("k", "v"),)),
                 ("bundle", "b1"), R("b1", "generation", None, ("nX", "n4", None), (("k", "v"),)),
                 ("bundle", "b2"), E("b2", "nX"), E("b2", "n5"), R("b2", "delegation", None, ("ag2", "nX", None)),
                 R("b2", "start", None, ("n4", "n4", None, None), (("k", "v"),)))))
    # optional arguments with gaps (no activity, but generation and / or usage)
    out.append(("derivation-gaps", (E("D", "e1"), E("D", "e2"), R("D", "derivation", None, ("e2", "e1", None, "g2", "u2")),
                                    R("D", "derivation", None, ("e2", "e1", None, None, "u9")),
                                    R("D", "derivation", None, ("e2", "e1", None, "g9", None)),
                                    R("D", "start", None, ("a1", None, "a7", None)))))
    # the same attribute name on different records with values that compare equal but are of different kinds
    out.append(("equal-values-of-different-kinds",
                (E("D", "e1", (("k", 1), ("z", 0), ("w", 1.0))), E("D", "e2", (("k", True), ("z", False), ("w", 1))),
                 E("D", "e3", (("k", 1.0), ("z", 0.0), ("w", True))), AC("D", "a1"),
                 R("D", "usage", None, ("a1", "e1", None), (("k", True),)), R("D", "usage", None, ("a1", "e2", None), (("k", 1),)),
                 ("bundle", "b1"), E("b1", "e1", (("k", True), ("z", 0.0))))))
    out.append(("time-only-relations",
                (E("D", "e1"), AC("D", "a1"), R("D", "generation", None, ("e1", "a1", "t")), R("D", "usage", None, ("a1", "e1", "t")),
                 R("D", "invalidation", None, ("e1", "a1", "t")), R("D", "start", None, ("a1", "e1", None, "t")),
                 R("D", "end", None, ("a1", "e1", "a2", "t")))))
    return out


def text_cases():
    E = lambda c, l, attrs=(): ("el", c, "entity", l, attrs)
    AC = lambda c, l, attrs=(): ("el", c, "activity", l, attrs)
    R = lambda c, kind, idl, args, attrs=(): ("rel", c, kind, idl, args, attrs)
    out = []
    for t in TEXTS:
        for pos in POSITIONS:
            if pos == "label":
                el = (("prov:label", t),)
                rl = (("prov:label", t),)
                ident, bid = "e1", "b1"
            elif pos == "value":
                el = rl = (("k", t),)
                ident, bid = "e1", "b1"
            elif pos == "uri-value":
                el = rl = (("k", ("uri", "http://c/" + t)),)
                ident, bid = "e1", "b1"
            elif pos == "qname-value":
                el = rl = (("prov:type", ("qn", "ex", A, t)),)
                ident, bid = "e1", "b1"
            elif pos == "attr-name":
                el = rl = ((("amp", "k" if t == "x" else t), "v"),)
                ident, bid = "e1", "b1"
            elif pos == "identifier":
                el = rl = ()
                ident, bid = t, "b1"
            else:
                el = rl = ()
                ident, bid = "e1", t
            out.append(("text:%s:%r:element" % (pos, t), (E("D", ident, el),)))
            out.append(("text:%s:%r:relation" % (pos, t),
                        (E("D", ident, el), AC("D", "a1"), R("D", "generation", None, (ident, "a1", None), rl),
                         R("D", "usage", ident if pos == "identifier" else "u1", ("a1", ident, None)))))
            out.append(("text:%s:%r:bundle" % (pos, t),
                        (("bundle", bid), E(bid, ident, el), R(bid, "generation", None, (ident, "a9", "t"), rl))))
    return out


OPTIONS = [dict(show_nary=n, use_labels=u, show_element_attributes=e, show_relation_attributes=r, direction=d)
           for n in (True, False) for u in (False, True) for e in (True, False) for r in (True, False)
           for d in ("BT", "TB", "LR", "RL", "sideways")]

LONG_TEXT_OPTIONS = [o for o in OPTIONS if o["show_nary"] and o["show_element_attributes"] and o["show_relation_attributes"]
                     and o["direction"] == "BT"]


def long_text_cases(tier):
    """quantity: a run of n plain characters, then a character that is escaped in DOT (or two of them), then a tail;
    n takes every value in a window below 4096 and below 8192 (limits a writer that folds or chunks long strings
    would use; Graphviz itself gives up beyond 16 kB)"""
    E = lambda c, l, attrs=(): ("el", c, "entity", l, attrs)
    out = []
    windows = [range(4060, 4100), range(8150, 8196)] if tier == "thorough" else [range(4084, 4098), range(8166, 8194)]
    for w in windows:
        for n in w:
            for special in ('\\"', '"', "\\"):
                t = "a" * n + special + "tail"
                out.append(("long-text:identifier:%d:%r" % (n, special), (E("D", t, ()),)))
                out.append(("long-text:label:%d:%r" % (n, special), (E("D", "e1", (("prov:label", t),)),)))
                out.append(("long-text:value:%d:%r" % (n, special), (E("D", "e1", (("k", t),)),)))
    return out


KIND_OF = {PROV_URI + "Entity": "entity", PROV_URI + "Activity": "activity", PROV_URI + "Agent": "agent"}


def style_key(attrs):
    return (attrs.get("shape"), attrs.get("fillcolor"))


def parse_html_label(label):
    """HTML-like label -> ElementTree (root 'r'); raises on anything that is not well-formed"""
    return ET.fromstring("<r>" + label + "</r>")


SUBST = "\x00"


def esc_decode(s, html):
    """what Graphviz shows for a label / URL text after its escString pass (measured on dot 2.43: in HTML-like
    labels and in URLs \\\\ is one backslash and \\N \\G \\E \\T \\H are replaced by object names; in plain labels
    \\n \\l \\r are line breaks as well; any other backslash stays).  A substitution is marked with NUL."""
    if s is None:
        return None
    out, i = [], 0
    while i < len(s):
        c = s[i]
        if c == "\\" and i + 1 < len(s):
            n = s[i + 1]
            if n == "\\":
                out.append("\\")
                i += 2
                continue
            if n in "NGETH":
                out.append(SUBST)
                i += 2
                continue
            if not html and n in "nlr":
                out.append("\n")
                i += 2
                continue
        out.append(c)
        i += 1
    return "".join(out)


def flat_text(el):
    return "".join(el.itertext())


class C15(spec.Spec):
    prop = "C15"

    def __init__(self, tier, params=None):
        super().__init__(tier, params)
        self.alphabet = []
        self.element_styles = {}
        for t, kind in KIND_OF.items():
            st = provdot.DOT_PROV_STYLE[[k for k in provdot.DOT_PROV_STYLE if getattr(k, "uri", None) == t][0]]
            self.element_styles[(st.get("shape"), st.get("fillcolor"))] = kind
        self.rel_label = {}
        for k, st in provdot.DOT_PROV_STYLE.items():
            if hasattr(k, "uri") and "label" in st:
                self.rel_label[k.uri] = st["label"]

    # -- one document, all option sets -------------------------------------------------
    def doc_case(self, item, out):
        tag, recipe = item
        try:
            doc = build_doc(recipe)
        except Exception as e:
            out.filters["recipe-not-buildable:%s" % type(e).__name__] += 1
            return
        if tag.startswith("long-text:"):
            # (texts of several kB: judged under the default options and with labels shown)
            self.judge_doc(doc, ("recipe", tag, repr(recipe)), out, OPTIONS=LONG_TEXT_OPTIONS)
        else:
            self.judge_doc(doc, ("recipe", tag, repr(recipe)), out)

    def hist_case(self, hist, out):
        try:
            doc = self.hspec.fresh(hist).doc
        except (machine.NotEnabled, machine.NonConformance):
            return
        self.judge_doc(doc, ("hist", self.hspec.ops(hist)), out)

    def judge_doc(self, doc, hh, out, OPTIONS=OPTIONS):
        # expectation from the (reference-checked) unified document
        top, bundles = observe.dobs_ordered(doc)
        conflict = ref_unified(list(top))[1] or any(ref_unified(list(rs))[1] for _, rs in bundles)
        if conflict:
            out.filters["unification-raises"] += 1
            return
        try:
            u = doc.unified()
        except ProvException:
            out.filters["unification-raises"] += 1
            return
        exp = self.expectation(u)
        texts = []
        for o in OPTIONS:
            try:
                texts.append(provdot.prov_to_dot(doc, **o).to_string())
            except Exception as e:
                out.violation("prov_to_dot-raises", type(e).__name__, {"error": repr(e), "options": o}, hh)
                texts.append(None)
        idx = [i for i, t in enumerate(texts) if t is not None]
        parsed = dotjson.parse_many([texts[i] for i in idx])
        for i, (g, err) in zip(idx, parsed):
            o = OPTIONS[i]
            out.evaluations += 1
            out.transitions += 1
            okey = "labels=%s,nary=%s,eattr=%s,rattr=%s" % (o["use_labels"], o["show_nary"], o["show_element_attributes"],
                                                          o["show_relation_attributes"])
            if g is None:
                out.violation("graphviz-rejects", _errkind(err), {"error": err, "options": o, "dot": texts[i][:1500]}, hh)
                continue
            problems = self.compare(g, exp, o)
            if problems:
                out.violation("dot-structure", problems[0][0], {"problems": [p[1] for p in problems[:4]], "options": o,
                                                                "dot": texts[i][:1500]}, hh)
            else:
                out.outcomes["ok"] += 1
        out.nontrivial += 1
        out.conform += 1
        if len(out.samples) < 1:
            out.samples.append({"document": hh[1:], "option_sets": len(OPTIONS)})

    def expectation(self, u):
        conts = [("", u)] + [(b.identifier.uri, b) for b in u.bundles]
        exp = {"clusters": Counter(), "elements": {}, "relations": [], "bundle_labels": {}}
        declared = set()
        for curi, c in conts:
            if curi:
                exp["clusters"][curi] += 1
                exp["bundle_labels"][curi] = str(c.identifier)
            els = []
            for r in c.get_records():
                if r.is_element():
                    nonref = [(str(a), a.uri, v) for a, v in r.attributes if a not in PROV_ATTRIBUTE_QNAMES]
                    labels = [v for a, v in r.attributes if a.uri == PROV_URI + "label"]
                    els.append({"uri": r.identifier.uri, "kind": KIND_OF[r.get_type().uri], "id": str(r.identifier),
                                "labels": [str(x) for x in labels], "attrs": nonref})
                    declared.add(r.identifier.uri)
            exp["elements"][curi] = els
        for curi, c in conts:
            for r in c.get_records():
                if r.is_element():
                    continue
                refs = [(a.localpart, v) for a, v in r.formal_attributes if a in PROV_ATTRIBUTE_QNAMES]
                nonref = [(str(a), a.uri, v) for a, v in r.attributes if a not in PROV_ATTRIBUTE_QNAMES]
                exp["relations"].append({"cont": curi, "type": r.get_type().uri, "refs": refs, "attrs": nonref})
        exp["declared"] = declared
        return exp

    def compare(self, g, exp, o):
        probs = []
        nodes = g["nodes"]
        # direction
        want_dir = o["direction"] if o["direction"] in ("BT", "TB", "LR", "RL") else "BT"
        if g["graph"].get("rankdir") != want_dir:
            probs.append(("rankdir", "rankdir=%r, expected %r" % (g["graph"].get("rankdir"), want_dir)))
        # clusters
        for c in g["clusters"]:
            if c.get("url") is not None:
                c["url"] = esc_decode(c["url"], True)
        for a in nodes.values():
            if "URL" in a:
                a["URL"] = esc_decode(a["URL"], True)
        got_clusters = Counter(c["url"] for c in g["clusters"])
        if got_clusters != exp["clusters"]:
            probs.append(("clusters", "clusters %r, expected %r" % (dict(got_clusters), dict(exp["clusters"]))))
            return probs
        for c in g["clusters"]:
            want = exp["bundle_labels"].get(c["url"])
            if want is not None and esc_decode(c["label"], False) != want.replace("\n", "\n"):
                probs.append(("cluster-label", "cluster label %r, expected %r" % (c["label"], want)))
        member = {}
        for c in g["clusters"]:
            for nname in c["nodes"]:
                member.setdefault(nname, set()).add(c["url"])
        # element nodes
        el_nodes = {}
        generic = {}
        points, anns = set(), set()
        for name, a in nodes.items():
            if a.get("shape") == "point":
                points.add(name)
            elif a.get("shape") == "note":
                anns.add(name)
            elif "URL" in a:
                kind = self.element_styles.get(style_key(a))
                if kind is not None:
                    el_nodes[name] = (a["URL"], kind)
                else:
                    generic[name] = a["URL"]
            else:
                probs.append(("unknown-node", "node %s is neither element, generic, point nor annotation: %r" % (name, a)))
        # per container: exactly one element node per unified element record
        want_global = Counter()
        node_of = {}
        for curi, els in exp["elements"].items():
            for e in els:
                want_global[(e["uri"], e["kind"])] += 1
                cands = [n for n, (url, kind) in el_nodes.items() if url == e["uri"] and kind == e["kind"] and
                         ((curi in member.get(n, ())) if curi else True)]
                if curi:
                    if len(cands) != 1:
                        probs.append(("element-node-count", "%d nodes for %s %s in cluster %s" % (
                            len(cands), e["kind"], e["uri"], curi)))
                        continue
                    node_of[(curi, e["uri"], e["kind"])] = cands[0]
                    if member.get(cands[0], set()) != {curi}:
                        # "inside that bundle's cluster": a node that is also listed in another cluster is drawn
                        # in whichever comes first
                        probs.append(("element-node-in-several-clusters", "node %s of %s (bundle %s) is a member of clusters %s" % (
                            cands[0], e["uri"], curi, sorted(member.get(cands[0], ())))))
                else:
                    # top level: the node that is not the own node of a bundle declaring the same thing
                    other = sum(1 for cu, es in exp["elements"].items() if cu for x in es
                                if x["uri"] == e["uri"] and x["kind"] == e["kind"])
                    if len(cands) != 1 + other:
                        probs.append(("element-node-count", "%d nodes for %s %s, expected %d" % (
                            len(cands), e["kind"], e["uri"], 1 + other)))
                        continue
                    own = [n for n in cands if not any(
                        (cu in member.get(n, ())) and any(x["uri"] == e["uri"] and x["kind"] == e["kind"] for x in es)
                        for cu, es in exp["elements"].items() if cu)]
                    if len(own) != 1:
                        probs.append(("element-node-count", "cannot place the document-level node of %s" % e["uri"]))
                        continue
                    node_of[(curi, e["uri"], e["kind"])] = own[0]
        got_global = Counter(el_nodes.values())
        if got_global != want_global:
            probs.append(("element-node-count", "element nodes %r, expected %r" % (
                sorted(got_global.items()), sorted(want_global.items()))))
        if probs:
            return probs
        # labels of element nodes
        for curi, els in exp["elements"].items():
            for e in els:
                n = node_of[(curi, e["uri"], e["kind"])]
                lab = nodes[n].get("label", "")
                if o["use_labels"] and e["labels"] and not (len(e["labels"]) == 1 and e["labels"][0] == e["id"]):
                    ok = False
                    try:
                        root = parse_html_label(lab)
                        kids = list(root)
                        if [k.tag for k in kids] == ["br", "font"] and not list(kids[1]) and \
                                esc_decode(root.text or "", True) in e["labels"] and esc_decode(kids[1].text or "", True) == e["id"] and \
                                not (kids[0].tail or "").strip() and not (kids[1].tail or "").strip():
                            ok = True
                    except ET.ParseError:
                        ok = False
                    if not ok:
                        probs.append(("element-label-markup", "label of %s is %r, expected text %r + id %r" % (
                            e["uri"], lab, e["labels"], e["id"])))
                else:
                    want = e["id"]
                    if esc_decode(lab, False) != want:
                        probs.append(("element-label", "label of %s is %r, expected %r" % (e["uri"], lab, want)))
        # edges
        url_of = {}
        for n, (url, kind) in el_nodes.items():
            url_of[n] = url
        for n, url in generic.items():
            url_of[n] = url
        ann_edges = {}
        direct = Counter()
        into_point, out_of_point = {}, {}
        for t, h, a in g["edges"]:
            if t in anns:
                ann_edges.setdefault(h, []).append(t)
            elif t in url_of and h in url_of:
                direct[(url_of[t], url_of[h], a.get("label", ""))] += 1
            elif t in url_of and h in points:
                into_point.setdefault(h, []).append((url_of[t], a.get("label", "")))
            elif t in points and h in url_of:
                out_of_point.setdefault(t, []).append((url_of[h], a.get("label", "")))
            elif t in points and h in points:
                out_of_point.setdefault(t, []).append((None, a.get("label", "")))
            elif t in url_of and h in anns or h in anns:
                probs.append(("edge-into-annotation", "edge %s -> %s" % (t, h)))
            else:
                probs.append(("unknown-edge", "edge %s -> %s" % (t, h)))
        via = {}
        for p in points:
            ins = into_point.get(p, [])
            outs = out_of_point.get(p, [])
            if len(ins) == 1:
                mains = [x for x in outs if x[1] == ""]
                legs = Counter(x for x in outs if x[1] != "")
                via[p] = (ins[0][0], mains[0][0] if len(mains) == 1 else ("?%d" % len(mains)), ins[0][1], legs)
        want_paths = Counter()
        unjudged = 0
        for r in exp["relations"]:
            refs = r["refs"]
            if len(refs) < 2 or refs[0][1] is None or refs[1][1] is None:
                unjudged += 1
                continue
            want_paths[(refs[0][1].uri, refs[1][1].uri, self.rel_label.get(r["type"], "?"))] += 1
        got_paths = Counter(direct)
        for p, (t, h, lab, legs) in via.items():
            if h is not None and not str(h).startswith("?"):
                got_paths[(t, h, lab)] += 1
        # paths that belong to one-ended relations are not judged: remove surplus only if unjudged relations exist
        if got_paths != want_paths:
            extra = got_paths - want_paths
            missing = want_paths - got_paths
            if missing or (extra and sum(extra.values()) > unjudged):
                probs.append(("relation-paths", "paths %r, expected %r" % (sorted(got_paths.items()), sorted(want_paths.items()))))
        # every referenced name has a node; generic nodes are referenced names
        referenced = set()
        for r in exp["relations"]:
            drawn = r["refs"][:2] + (r["refs"][2:] if o["show_nary"] else [])
            if len(r["refs"]) >= 2:
                for fa, v in drawn:
                    if v is not None:
                        referenced.add(v.uri)
        have = set(url_of.values())
        for uri in referenced:
            if uri not in have:
                probs.append(("referenced-name-without-node", "no node for %s" % uri))
        for n, url in generic.items():
            if url not in referenced:
                probs.append(("invented-node", "generic node %s for unreferenced %s" % (n, url)))
            lab = nodes[n].get("label", "")
        # n-ary legs and annotations of relations
        want_nary = Counter()
        want_rel_ann = Counter()
        for r in exp["relations"]:
            refs = r["refs"]
            if len(refs) < 2:
                continue
            nary = o["show_nary"] and len(refs) > 2
            if nary:
                legs = Counter((v.uri, fa) for fa, v in refs[2:] if v is not None)
                if refs[0][1] is not None and refs[1][1] is not None:
                    want_nary[(refs[0][1].uri, refs[1][1].uri, frozenset(legs.items()))] += 1
            if o["show_relation_attributes"] and r["attrs"]:
                want_rel_ann[self.rows_key(r["attrs"])] += 1
        got_nary = Counter()
        for p, (t, h, lab, legs) in via.items():
            if legs and h is not None and not str(h).startswith("?"):
                got_nary[(t, h, frozenset(legs.items()))] += 1
        want_nary_nonempty = Counter({k: v for k, v in want_nary.items() if k[2]})
        if got_nary != want_nary_nonempty:
            probs.append(("nary-legs", "n-ary legs %r, expected %r" % (sorted(map(repr, got_nary.items())),
                                                                       sorted(map(repr, want_nary_nonempty.items())))))
        # annotations
        got_rel_ann = Counter()
        got_el_ann = Counter()
        for target, srcs in ann_edges.items():
            for a in srcs:
                rows = self.read_table(nodes[a].get("label", ""))
                if rows is None:
                    probs.append(("annotation-markup", "annotation %s is not the expected table: %r" % (
                        a, nodes[a].get("label", "")[:300])))
                    continue
                if target in points:
                    got_rel_ann[rows] += 1
                elif target in el_nodes:
                    got_el_ann[(el_nodes[target][0], rows)] += 1
                else:
                    probs.append(("annotation-target", "annotation on %s" % target))
        want_el_ann = Counter()
        if o["show_element_attributes"]:
            for curi, els in exp["elements"].items():
                for e in els:
                    if e["attrs"]:
                        want_el_ann[(e["uri"], self.rows_key(e["attrs"]))] += 1
        if got_el_ann != want_el_ann:
            probs.append(("element-annotations", "element annotations %r, expected %r" % (
                sorted(map(repr, got_el_ann.items()))[:4], sorted(map(repr, want_el_ann.items()))[:4])))
        if got_rel_ann != want_rel_ann:
            probs.append(("relation-annotations", "relation annotations %r, expected %r" % (
                sorted(map(repr, got_rel_ann.items()))[:4], sorted(map(repr, want_rel_ann.items()))[:4])))
        unlinked = anns - {a for srcs in ann_edges.values() for a in srcs}
        if unlinked:
            probs.append(("annotation-target", "annotations linked to nothing: %s" % sorted(unlinked)))
        return probs

    @staticmethod
    def rows_key(attrs):
        rows = []
        for name, uri, v in attrs:
            text = v.isoformat() if isinstance(v, datetime.datetime) else str(v)
            rows.append((_ws(uri), name, _ws(v.uri) if isinstance(v, Identifier) else None, text))
        return tuple(sorted(rows, key=repr))

    @staticmethod
    def read_table(label):
        """the annotation label must be exactly TABLE > TR* > TD TD with text only"""
        try:
            root = parse_html_label(label)
        except ET.ParseError:
            return None
        kids = list(root)
        if len(kids) != 1 or kids[0].tag != "TABLE" or (root.text or "").strip():
            return None
        rows = []
        for tr in kids[0]:
            if tr.tag != "TR":
                return None
            tds = list(tr)
            if len(tds) != 2 or any(td.tag != "TD" or list(td) for td in tds):
                return None
            if set(tds[0].attrib) - {"align", "href"} or set(tds[1].attrib) - {"align", "href"}:
                return None
            rows.append((esc_decode(_ws(tds[0].attrib.get("href")), True), esc_decode(tds[0].text or "", True),
                         esc_decode(_ws(tds[1].attrib.get("href")), True), esc_decode(tds[1].text or "", True)))
        return tuple(sorted(rows, key=repr))

    def ops(self, hist):
        return list(hist)

    def render(self, hist):
        if hist and hist[0] == "recipe":
            return ("from provmc.props.c15 import build_doc\nfrom prov.dot import prov_to_dot\n"
                    "d = build_doc(%s)\nprint(prov_to_dot(d, **OPTIONS).to_string())  # pipe into: dot -Tdot_json" % hist[2])
        return "# history %r" % (hist,)


def _ws(s):
    """XML attribute-value normalisation (applied by the label parser to href): tab/newline -> space"""
    return None if s is None else s.replace("\n", " ").replace("\t", " ").replace("\r", " ")


def _errkind(err):
    import re
    e = err or ""
    for pat in ("syntax error", "bad label", "Illegal", "Unknown HTML element", "not well-formed", "illegal"):
        if pat.lower() in e.lower():
            return pat.lower().replace(" ", "-")
    return re.sub(r"[^a-z]+", "-", e.lower())[:40]


def make_spec(tier, params):
    sp = C15(tier, params)
    from . import c15hist
    sp.hspec = c15hist.make_spec(tier, params)
    return sp


def main(tier, seed):
    import time
    from .. import runner
    t0 = time.time()
    sp = make_spec(tier, {})
    items = structures() + text_cases() + long_text_cases(tier)
    out = explore.pmap(__name__, tier, {}, "doc_case", items, chunk=3)
    out.evaluations -= len(items)
    nh = 0
    if True:
        from . import c15hist
        hists = []
        hdepth = {"quick": 2, "thorough": 3}[tier]
        o1, st1 = explore.bfs(c15hist.__name__, tier, {}, hdepth, collect=hists)
        nh = len(hists)
        out2 = explore.pmap(__name__, tier, {}, "hist_case", hists, chunk=4)
        out2.evaluations -= len(hists)
        out.merge(out2)
    vs, nsig = runner.violations_json(sp, out)
    cov = {
        "states": out.nontrivial, "transitions": out.transitions, "traces_validated_against_impl": out.conform,
        "evaluations": out.evaluations, "distinct_nontrivial": out.nontrivial,
        "rule": ("%d structure recipes + %d markup texts x %d positions x 3 placements%s, each x all 80 option sets "
                 "(show_nary x use_labels x show_element_attributes x show_relation_attributes x 5 directions); every "
                 "DOT text is read by Graphviz (dot -Tdot_json) and compared with the expected structure; distinct = "
                 "document; non-trivial = unifiable document judged under all options" % (
                     len(structures()), len(TEXTS), len(POSITIONS),
                     (" + %d states of a bundle-aware history alphabet to depth %d" % (nh, hdepth)) if nh else "")),
        "samples": out.samples[:2], "exhaustive": True, "documents": len(items) + nh, "option_sets": len(OPTIONS),
        "filters": dict(out.filters), "outcomes": dict(out.outcomes),
        "notes": {"node_map is keyed by URI across clusters: a document-level relation may attach to the same-URI node "
                  "of a bundle; ends still carry the right URIs (recorded, not judged)": 1},
    }
    return {"property": "C15", "coverage": cov, "violations": vs, "signatures": nsig,
            "assumptions": ["Graphviz 2.43 (dot -Tdot_json) is the trusted DOT/HTML-like-label parser"],
            "wall_s": round(time.time() - t0, 2)}


def replay(item, tier, seed):
    import ast
    from .. import runner
    sp = make_spec("quick", {})
    out = explore.Out()
    h = item.get("history", [])
    if h and h[0] == "recipe":
        sp.doc_case((h[1], ast.literal_eval(h[2])), out)
    elif h and h[0] == "hist":
        st = machine.State()
        for x in h[1]:
            machine.apply(st, ast.literal_eval(x), sp.hspec.values)
        sp.judge_doc(st.doc, ("hist", list(h[1])), out)
    vs, _ = runner.violations_json(sp, out)
    vs = [v for v in vs if v["clause"] == item.get("clause") and v["sig"] == item.get("sig")] or vs
    return {"property": "C15", "coverage": {"states": 1, "transitions": 1, "traces_validated_against_impl": 1,
            "samples": [{"replayed": h}]}, "violations": vs, "wall_s": 0}
