"""Attribute-value vocabulary (DESIGN 4.3): one value per shortcut visible in the code.

Each entry knows how to make a fresh Python value for the API, what the reference model
says is stored (its strict observation), and how to print itself in a replay snippet.
"""
import datetime

from prov.identifier import Identifier, Namespace, QualifiedName
from prov.model import Literal

from . import observe
from .machine import U, TIMES

XSDU = U["X"]


class Val(object):
    def __init__(self, key, source, maker, obs=None, tags=()):
        self.key = key
        self.source = source
        self._maker = maker
        self._obs = obs
        self.tags = set(tags)

    def make(self, st=None, scope=None):
        return self._maker()

    def model_obs(self, model=None, scope=None):
        if self._obs is not None:
            return self._obs
        return observe.vobs(self._maker())

    @staticmethod
    def py_equal_other_kind(o1, o2):
        """J1: two observations of different kind whose Python values compare equal"""
        num = ("int", "float", "bool")
        if o1[0] in num and o2[0] in num and o1[0] != o2[0]:
            def val(o):
                return float(o[1]) if o[0] == "float" else o[1]
            return val(o1) == val(o2)
        # Identifier(u) vs QualifiedName with uri u compare equal in the library
        if {o1[0], o2[0]} == {"qn", "uri"}:
            return o1[1] == o2[1]
        return False


class QNameVal(Val):
    """a qualified-name value; using it registers its namespace implicitly"""

    def __init__(self, key, name):
        self.key = key
        self.name = name
        urikey, local, sp = name
        assert sp[0] == "q"
        self.source = "QualifiedName(Namespace(%r, %r), %r)" % (sp[1], U[urikey], local)
        self.tags = {"qname"}

    def make(self, st=None, scope=None):
        if st is not None:
            return st.spell(self.name)
        urikey, local, sp = self.name
        return QualifiedName(Namespace(sp[1], U[urikey]), local)

    def model_obs(self, model=None, scope=None):
        if model is not None:
            model.use_name(scope, self.name)
        return ("qn", U[self.name[0]] + self.name[1])


def _v(key, source, tags=()):
    code = compile(source, "<value %s>" % key, "eval")
    env = {"datetime": datetime, "Literal": Literal, "Identifier": Identifier,
           "Namespace": Namespace, "QualifiedName": QualifiedName, "XSD": Namespace("xsd", XSDU),
           "PROVNS": Namespace("prov", U["P"])}
    return Val(key, source, lambda: eval(code, env), tags=tags)


def _all():
    vs = [
        # strings
        _v("s_empty", "''", ["str", "edge"]),
        _v("s_a", "'a'", ["str", "basic"]),
        _v("s_quote", "'a\"b'", ["str"]),
        _v("s_bslash", "'a\\\\b'", ["str"]),
        _v("s_tailbs", "'tail\\\\'", ["str"]),
        _v("s_nl", "'l1\\nl2'", ["str"]),
        _v("s_nl_endquote", "'l1\\nl2\"'", ["str"]),
        _v("s_nl_triple", "'a\"\"\"b\\nc'", ["str"]),
        _v("s_nl_bslash", "'l1\\\\\\nl2\\\\'", ["str"]),
        _v("s_linesep", "'l1\\u2028l2\\u2029l3\\x85l4'", ["str"]),
        _v("s_trailing_nl", "'abc\\n'", ["str"]),
        _v("s_only_nl", "'\\n'", ["str"]),
        _v("s_cr", "'a\\rb'", ["str"]),
        _v("s_crlf", "'l1\\r\\nl2'", ["str"]),
        _v("s_tab", "'\\ttab'", ["str"]),
        _v("s_pad", "' pad '", ["str"]),
        _v("s_markup", "'<&>]]>'", ["str"]),
        _v("s_uni", "'\\xe9\\u6f22\\U0001f600'", ["str"]),
        # 120 kB with a two-byte character every 7 and a three-byte character every 5 bytes: one of the 8 kB (or
        # smaller) block boundaries of a chunked copy is bound to fall inside a character
        _v("s_big_dense", "'\\xe9xxxxx' * 9000 + '\\u6f22xx' * 12000", ["str", "big"]),
        _v("s_provx", "'prov:x'", ["str"]),
        _v("s_exx", "'ex:x'", ["str"]),
        _v("s_True", "'True'", ["str"]),
        _v("s_1", "'1'", ["str"]),
        # ints
        _v("i_2", "2", ["int", "basic"]),
        _v("i_1", "1", ["int"]),
        _v("i_0", "0", ["int"]),
        _v("i_neg", "-1", ["int"]),
        # ints whose CPython hash values collide with those of other values of the alphabet: hash(-2) == hash(-1),
        # hash(2**61 - 1) == hash(0)
        _v("i_m2", "-2", ["int"]),
        _v("i_2_61m1", "2**61 - 1", ["int"]),
        _v("i_2_31", "2**31", ["int"]),
        _v("i_2_63", "2**63", ["int"]),
        _v("i_big", "10**30", ["int"]),
        # floats
        _v("f_2_5", "2.5", ["float", "basic"]),
        _v("f_sum", "0.1+0.2", ["float"]),
        _v("f_1e300", "1e300", ["float"]),
        _v("f_min", "5e-324", ["float"]),
        _v("f_negzero", "-0.0", ["float"]),
        _v("f_1", "1.0", ["float"]),
        _v("f_0", "0.0", ["float"]),
        _v("f_2_0", "2.0", ["float"]),
        _v("f_long", "1.23456789", ["float"]),
        # bools
        _v("b_T", "True", ["bool", "basic"]),
        _v("b_F", "False", ["bool"]),
        # datetimes
        _v("d_naive", "datetime.datetime(2012, 3, 4, 5, 6, 7)", ["dt", "basic"]),
        _v("d_us", "datetime.datetime(2013, 1, 1, 0, 0, 0, 250000)", ["dt"]),
        _v("d_530", "datetime.datetime(2014, 6, 7, 8, 9, 10, tzinfo=datetime.timezone(datetime.timedelta(hours=5, minutes=30)))", ["dt"]),
        _v("d_530_as_utc", "datetime.datetime(2014, 6, 7, 2, 39, 10, tzinfo=datetime.timezone.utc)", ["dt"]),
        _v("d_us_530", "datetime.datetime(2014, 6, 7, 8, 9, 10, 120000, tzinfo=datetime.timezone(datetime.timedelta(hours=5, minutes=30)))", ["dt"]),
        _v("d_us_utc", "datetime.datetime(2015, 1, 1, 12, 0, 0, 500000, tzinfo=datetime.timezone.utc)", ["dt"]),
        _v("d_neg0330", "datetime.datetime(2014, 6, 7, 8, 9, 10, tzinfo=datetime.timezone(-datetime.timedelta(hours=3, minutes=30)))", ["dt"]),
        _v("d_utc", "datetime.datetime(2015, 1, 1, 12, 0, 0, tzinfo=datetime.timezone.utc)", ["dt"]),
        # URIs
        _v("u_plain", "Identifier('http://c/res')", ["uri", "basic"]),
        _v("u_amp", "Identifier('http://c/r?a=1&b=2')", ["uri"]),
        _v("u_provscheme", "Identifier('prov:thing')", ["uri"]),
        _v("u_urn", "Identifier('urn:x:y')", ["uri"]),
        _v("u_blank", "Identifier('urn:x:trailing-blank ')", ["uri"]),
        # literals
        _v("l_lang", "Literal('bonjour', langtag='fr')", ["lit", "lang", "basic"]),
        _v("l_lang_empty", "Literal('', langtag='en')", ["lit", "lang"]),
        _v("l_typed_empty", "Literal('', QualifiedName(Namespace('ex', 'http://a/'), 'dt'))", ["lit", "userlit"]),
        _v("l_padded", "Literal(' AB 12\\t', QualifiedName(Namespace('ex', 'http://a/'), 'dt'))", ["lit", "userlit"]),
        _v("l_token", "Literal(' x ', XSD['token'])", ["lit", "xsdlit"]),
        _v("l_defdt", "Literal('v', QualifiedName(Namespace('', 'http://a/'), 'dt'))", ["lit", "userlit"]),
        _v("l_lang_nl", "Literal('l1\\nl2', langtag='en-GB')", ["lit", "lang"]),
        _v("l_short", "Literal('7', XSD['short'])", ["lit", "xsdlit"]),
        _v("l_float", "Literal('1.5', XSD['float'])", ["lit", "xsdlit"]),
        _v("l_decimal", "Literal('1.50', XSD['decimal'])", ["lit", "xsdlit"]),
        _v("l_date", "Literal('2012-03-04', XSD['date'])", ["lit", "xsdlit"]),
        _v("l_xsdqname", "Literal('ex:x', XSD['QName'])", ["lit", "xsdqname"]),
        _v("l_exdt", "Literal('v', QualifiedName(Namespace('ex', 'http://a/'), 'dt'))", ["lit", "userlit"]),
        _v("l_exBdt", "Literal('v', QualifiedName(Namespace('ex', 'http://b/'), 'dt'))", ["lit", "userlit"]),
        _v("l_foreign", "Literal('v', QualifiedName(Namespace('foo', 'http://c/'), 'dt'))", ["lit", "userlit", "foreignlit"]),
        _v("l_provdt", "Literal('v', PROVNS['Thing'])", ["lit"]),
        _v("l_intl_nolang", "Literal('x', PROVNS['InternationalizedString'])", ["lit"]),
    ]
    qn = [
        QNameVal("q_exA", ("A", "v", ("q", "ex"))),
        QNameVal("q_exB", ("B", "v", ("q", "ex"))),
        QNameVal("q_fooC", ("C", "v", ("q", "foo"))),
        QNameVal("q_defA", ("A", "v", ("q", ""))),
        QNameVal("q_defB", ("B", "v", ("q", ""))),
        QNameVal("q_colon", ("A", "v:1", ("q", "ex"))),
        QNameVal("q_prov", ("P", "Person", ("q", "prov"))),
        QNameVal("q_provPlan", ("P", "Plan", ("q", "prov"))),
        QNameVal("q_provRevision", ("P", "Revision", ("q", "prov"))),
        QNameVal("q_provQuotation", ("P", "Quotation", ("q", "prov"))),
        QNameVal("q_provPrimarySource", ("P", "PrimarySource", ("q", "prov"))),
        QNameVal("q_provOrganization", ("P", "Organization", ("q", "prov"))),
        QNameVal("q_provSoftwareAgent", ("P", "SoftwareAgent", ("q", "prov"))),
        QNameVal("q_provCollection", ("P", "Collection", ("q", "prov"))),
        QNameVal("q_provEmptyCollection", ("P", "EmptyCollection", ("q", "prov"))),
        QNameVal("q_provBundle", ("P", "Bundle", ("q", "prov"))),
        QNameVal("q_provEntity", ("P", "Entity", ("q", "prov"))),
    ]
    out = {}
    for v in vs + qn:
        out[v.key] = v
    return out


VALUES = _all()
