"""In-process drivers that turn explorations into a result dictionary (one per hash seed);
the launcher (/verif/check) merges them, attributes known findings and writes evidence."""
import importlib
import time

from . import explore, machine


def violations_json(spec, out, limit=400):
    vs = []
    for key, (n, ex) in sorted(out.viol.items(), key=lambda kv: (len(kv[1][1]["hist"] or ()), kv[0])):
        item = {
            "clause": ex["clause"],
            "sig": ex["sig"],
            "count": n,
            "detail": ex["detail"],
        }
        h = ex["hist"]
        if h is not None:
            try:
                item["history"] = spec.ops(h)
                item["snippet"] = spec.render(h)
            except Exception:
                item["history"] = h
        if ex.get("extra"):
            item.update(ex["extra"])
        vs.append(item)
    return vs[:limit], len(vs)


def coverage_from(out, stats, spec, rule, extra=None):
    cov = {
        "states": stats.get("states", 0),
        "transitions": out.transitions,
        "traces_validated_against_impl": out.conform,
        "evaluations": out.evaluations + out.transitions,
        "distinct_nontrivial": out.nontrivial,
        "rule": rule,
        "samples": out.samples[:3],
        "exhaustive": stats.get("capped") is None,
        "depth_completed": stats.get("depth_completed"),
        "levels": stats.get("levels"),
        "fixpoint_reached": stats.get("fixpoint"),
        "capped": stats.get("capped"),
        "alphabet_size": len(spec.alphabet),
        "alphabet": [repr(o) for o in spec.alphabet],
        "filters": dict(out.filters),
        "outcomes": dict(out.outcomes),
        "notes": dict(out.notes),
    }
    applied = getattr(out, "applied", None)
    if applied is not None and stats.get("states", 0) > 1:
        # vacuity audit: a letter of the alphabet that was never applied successfully contributes nothing
        cov["letters_never_applied"] = [repr(o) for i, o in enumerate(spec.alphabet) if not applied.get(i)]
        cov["least_applied_letters"] = [[repr(spec.alphabet[i]), n] for i, n in sorted(applied.items(), key=lambda kv: kv[1])[:3]]
    if extra:
        cov.update(extra)
    return cov


# safety caps: an exploration that does not stay within them (possible when the code under test is
# broken in a way that blows the state space up) stops after the last complete level and says so
BUDGET_S = {"quick": 150, "thorough": 3000}
MAX_STATES = {"quick": 1500000, "thorough": 8000000}


def run_history(modname, prop, tier, seed, depth, params=None, rule=None, budget_s=None, max_states=None):
    mod = importlib.import_module(modname)
    spec = mod.make_spec(tier, params or {})
    t0 = time.time()
    out, stats = explore.bfs(modname, tier, params or {}, depth,
                             budget_s=budget_s or BUDGET_S[tier], max_states=max_states or MAX_STATES[tier])
    vs, nsig = violations_json(spec, out)
    cov = coverage_from(out, stats, spec, rule or (
        "explicit-state BFS over histories of real API calls; a state is distinct by its canonical key "
        "(namespace tables + ordered records); non-trivial = holds at least one record"))
    return {"property": prop, "coverage": cov, "violations": vs, "signatures": nsig,
            "wall_s": round(time.time() - t0, 2)}


def merge_results(prop, parts):
    """combine several explorations of one property (history + sweeps) into one result"""
    cov = {"states": 0, "transitions": 0, "traces_validated_against_impl": 0, "evaluations": 0,
           "distinct_nontrivial": 0, "samples": [], "exhaustive": True, "parts": {}}
    vs = []
    rules = []
    wall = 0
    for name, r in parts:
        c = r["coverage"]
        for k in ("states", "transitions", "traces_validated_against_impl", "evaluations", "distinct_nontrivial"):
            cov[k] += c.get(k, 0)
        cov["samples"].extend(c.get("samples", [])[:2])
        cov["exhaustive"] = cov["exhaustive"] and c.get("exhaustive", True)
        cov["parts"][name] = {k: v for k, v in c.items() if k not in ("samples",)}
        rules.append("%s: %s" % (name, c.get("rule", "")))
        for v in r["violations"]:
            v = dict(v)
            v["part"] = name
            vs.append(v)
        wall += r.get("wall_s", 0)
    cov["rule"] = " || ".join(rules)
    return {"property": prop, "coverage": cov, "violations": vs, "wall_s": round(wall, 2)}


def run_history_and_sweep(modname, prop, tier, seed, depth, sweep, params=None):
    from . import sweeps
    parts = [("history", run_history(modname, prop, tier, seed, depth, params))]
    parts.append(("sweep", sweeps.run_sweep(modname, prop, tier, seed, sweep, params)))
    return merge_results(prop, parts)


def replay_generic(modname, prop, item, tier):
    """re-execute one recorded violation (history of ops) without the explorer"""
    import ast
    mod = importlib.import_module(modname)
    spec = mod.make_spec(tier, {})
    out = explore.Out()
    ops = tuple(ast.literal_eval(o) for o in item.get("history", []))
    if item.get("part") == "sweep":
        spec.sweep_case(((item.get("detail") or {}).get("where", "replay"), ops), out)
    else:
        st = spec.build_case(ops, out)
        if st is not None:
            spec.check_state(st, out)
            if hasattr(spec, "replay_extra"):
                spec.replay_extra(st, item, out)
    vs, nsig = violations_json(spec, out)
    cov = {"states": 1, "transitions": max(1, out.transitions), "traces_validated_against_impl": out.conform,
           "samples": [{"replayed": item.get("history")}], "evaluations": 1, "distinct_nontrivial": 1,
           "rule": "replay of one recorded case", "exhaustive": False, "filters": dict(out.filters)}
    return {"property": prop, "coverage": cov, "violations": vs, "wall_s": 0}
