"""Strict, URI-level, kind-aware observation of prov objects (DESIGN 3.4).

Nothing here calls the library's own ==/hash on records or documents; only public
accessors (get_type, identifier, attributes, bundles, namespaces ...) are used.
"""
import datetime

from prov.identifier import Identifier, QualifiedName
from prov.model import Literal


def vobs(v):
    """Type-tagged observation of one attribute value: 1 != True != 1.0."""
    if isinstance(v, bool):
        return ("bool", v)
    if isinstance(v, int):
        return ("int", v)
    if isinstance(v, float):
        return ("float", repr(v))
    if isinstance(v, str):
        return ("str", str(v))
    if isinstance(v, datetime.datetime):
        off = v.utcoffset()
        return ("dt", v.isoformat(), None if off is None else off.total_seconds())
    if isinstance(v, QualifiedName):
        return ("qn", v.uri)
    if isinstance(v, Identifier):
        return ("uri", v.uri)
    if isinstance(v, Literal):
        dt = v.datatype
        return ("lit", v.value, None if dt is None else getattr(dt, "uri", str(dt)), v.langtag)
    return ("other", type(v).__name__, repr(v))


def robs(rec):
    """(type uri, identifier uri | None, sorted tuple of (attr uri, value obs))."""
    ident = rec.identifier
    return (
        rec.get_type().uri,
        None if ident is None else ident.uri,
        tuple(sorted(((a.uri, vobs(v)) for a, v in rec.attributes), key=repr)),
    )


def records_obs(container):
    """records of one container in list order"""
    return [robs(r) for r in container.get_records()]


def mset(lst):
    return tuple(sorted(lst, key=repr))


def dobs(doc):
    """multiset observation of a document: (records, {bundle uri: records})."""
    top = mset(records_obs(doc))
    bundles = {}
    for b in doc.bundles:
        bundles.setdefault(b.identifier.uri, []).extend(records_obs(b))
    return (top, tuple(sorted((u, mset(rs)) for u, rs in bundles.items())))


def dobs_ordered(doc):
    """like dobs but keeping record order and bundle order (C12, C13)."""
    return (tuple(records_obs(doc)), tuple((b.identifier.uri, tuple(records_obs(b))) for b in doc.bundles))


def dobs_set(doc):
    """set-based observation (what == is specified to compare; RDF comparison)."""
    top, bundles = dobs(doc)
    return (frozenset(top), frozenset((u, frozenset(rs)) for u, rs in bundles))


def nsobs_one(container):
    regs = tuple(sorted((ns.prefix, ns.uri) for ns in container.namespaces))
    d = container.get_default_namespace()
    return (regs, None if d is None else d.uri)


def nsobs(doc):
    out = [("", nsobs_one(doc))]
    for b in doc.bundles:
        out.append((b.identifier.uri, nsobs_one(b)))
    return tuple(out)


def diff_obs(a, b, limit=6):
    """human-readable difference of two dobs values"""
    out = []
    ta, ba = a
    tb, bb = b
    def md(x, y, where):
        from collections import Counter
        cx, cy = Counter(x), Counter(y)
        for r in (cx - cy):
            out.append("%s: only in first: %r" % (where, r))
        for r in (cy - cx):
            out.append("%s: only in second: %r" % (where, r))
    md(ta, tb, "document")
    da, db = dict(ba), dict(bb)
    for u in sorted(set(da) | set(db)):
        if u not in da:
            out.append("bundle <%s> only in second (%d records)" % (u, len(db[u])))
        elif u not in db:
            out.append("bundle <%s> only in first (%d records)" % (u, len(da[u])))
        else:
            md(da[u], db[u], "bundle <%s>" % u)
    return out[:limit]


def _pair_kind(r1, r2):
    """classify how two record observations differ (r1 original, r2 after)"""
    kinds = []
    if r1[0] != r2[0]:
        kinds.append("type-changed")
    if r1[1] != r2[1]:
        kinds.append("id-changed" if (r1[1] and r2[1]) else ("id-lost" if r1[1] else "id-invented"))
    from collections import Counter
    a1, a2 = Counter(r1[2]), Counter(r2[2])
    lost, new = list((a1 - a2).elements()), list((a2 - a1).elements())
    ln = {a for a, _ in lost}
    nn = {a for a, _ in new}
    for a, v in lost:
        cands = [v2 for a2, v2 in new if a2 == a]
        if cands:
            v2 = cands[0]
            if v[0] != v2[0]:
                kinds.append("value-kind:%s->%s" % (v[0], v2[0]))
            else:
                kinds.append("value-changed:%s" % v[0])
        elif a not in nn and len(ln) == len(nn) and any(v2 == v for _, v2 in new):
            kinds.append("attr-name-changed")
        else:
            kinds.append("value-lost:%s" % v[0])
    for a, v in new:
        if a not in ln and not any(v2 == v for _, v2 in lost):
            kinds.append("value-invented:%s" % v[0])
    return kinds


def classify_diff(a, b):
    """coarse, history-independent diagnosis of a dobs difference: sorted tuple of kinds"""
    from collections import Counter
    kinds = set()
    ta, ba = a
    tb, bb = b

    def md(x, y):
        cx, cy = Counter(x), Counter(y)
        lost, new = list((cx - cy).elements()), list((cy - cx).elements())
        used = set()
        for r in lost:
            best = None
            for j, r2 in enumerate(new):
                if j in used:
                    continue
                score = (r[0] == r2[0]) + (r[1] == r2[1]) + len(set(r[2]) & set(r2[2]))
                if best is None or score > best[0]:
                    best = (score, j)
            if best is None:
                kinds.add("record-lost")
            else:
                used.add(best[1])
                for k in _pair_kind(r, new[best[1]]):
                    kinds.add(k)
        for j, r2 in enumerate(new):
            if j not in used:
                kinds.add("record-invented")

    md(ta, tb)
    da, db = dict(ba), dict(bb)
    la, lb = sorted(set(da) - set(db)), sorted(set(db) - set(da))
    if la and lb and len(la) == len(lb):
        kinds.add("bundle-id-changed")
        for u1, u2 in zip(la, lb):
            md(da[u1], db[u2])
    else:
        if la:
            kinds.add("bundle-lost")
        if lb:
            kinds.add("bundle-invented")
    for u in set(da) & set(db):
        md(da[u], db[u])
    return tuple(sorted(kinds))


def touch(doc):
    """call every read-only public accessor of every record (args, formal_attributes, extra_attributes, label,
    value, repr, get_attribute of each formal name, get_asserted_types): reading must not change what a later
    export prints"""
    recs = list(doc.get_records())
    for b in doc.bundles:
        recs.extend(b.get_records())
    for r in recs:
        r.args
        r.formal_attributes
        r.extra_attributes
        r.label
        r.value
        repr(r)
        str(r.identifier)
        r.get_asserted_types()
        for a in r.FORMAL_ATTRIBUTES:
            r.get_attribute(a)
        if hasattr(r, "get_startTime"):
            r.get_startTime()
            r.get_endTime()


def input_class(doc):
    """tag of an input class that a known finding is keyed by (appended to violation signatures, so that
    the finding's entry matches this class only and any other violation keeps its own signature)"""
    names = [str(b.identifier) for b in doc.bundles]
    return "[bundles-printing-alike]" if len(set(names)) < len(names) else ""


_DECOY = []
_DECOY_CALLS = {}


def export_decoy(fmt, **opts):
    """call history made explicit: before a judged export (or load), another document - holding values that
    compare equal to commonly used ones but are of another kind, the same names under other URIs - goes through
    the same writer and reader, so that anything a call leaves behind in the process (memo tables, interned
    values, counters) meets the judged call in a fixed state, in a full run and in a replay alike."""
    import datetime
    from prov.identifier import Namespace
    from prov.model import Literal, ProvDocument
    if not _DECOY:
        d = ProvDocument()
        EX = Namespace("ex", "http://decoy.example/")
        d.add_namespace(EX)
        utc = datetime.timezone.utc
        d.entity(EX["x"], [(EX["k"], True), (EX["k2"], 0), (EX["k3"], 2.0), (EX["k4"], "1"), (EX["v"], EX["v"]),
                           (EX["k5"], datetime.datetime(2014, 6, 7, 2, 39, 10, tzinfo=utc)),
                           (EX["k6"], Literal("v", EX["dt"])), (EX["k7"], Literal("bonjour", langtag="en")),
                           (EX["k8"], -0.0), (EX["k9"], False), (EX["k10"], 1.0)])
        d.activity(EX["a"], datetime.datetime(2012, 3, 4, 5, 6, 7, tzinfo=utc))
        d.generation(EX["x"], EX["a"])
        b = d.bundle(EX["b1"])
        b.entity(EX["x"], {EX["k"]: 1})
        _DECOY.append(d)
    d = _DECOY[0]
    # the first judged call of a process (hence every replay) and every 64th after it: what a call leaves
    # behind persists, so later judged calls of a long run meet it anyway
    key = (fmt, repr(sorted(opts.items())))
    n = _DECOY_CALLS.get(key, 0)
    _DECOY_CALLS[key] = n + 1
    if n % 64:
        return
    try:
        if fmt == "provn":
            d.get_provn()
        else:
            from prov.model import ProvDocument as PD
            PD.deserialize(content=d.serialize(format=fmt, **opts), format=fmt)
    except Exception:
        pass
