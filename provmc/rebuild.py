"""Realise a model-level document (the shape observe.dobs_ordered returns) through the public
construction API, under a chosen prefix assignment.  Used to produce variants of explored
documents (C04) and to feed reference documents to the foreign writers (C11)."""
import datetime

from prov.identifier import Identifier, Namespace, QualifiedName
from prov.model import Literal, ProvDocument

BASES = sorted([
    "http://a/b/", "http://a/", "http://b/", "http://c/", "http://bn/", "http://mm/", "http://bn9/",
    "http://www.w3.org/ns/prov#", "http://www.w3.org/2001/XMLSchema#",
], key=len, reverse=True)

DEFAULT_PREFIXES = {
    "http://a/": "ex", "http://b/": "exb", "http://a/b/": "ab", "http://c/": "cc", "http://bn/": "bn",
    "http://mm/": "mm", "http://bn9/": "bn9",
    "http://www.w3.org/ns/prov#": "prov", "http://www.w3.org/2001/XMLSchema#": "xsd",
}


def split(uri):
    for b in BASES:
        if uri.startswith(b) and len(uri) > len(b):
            return b, uri[len(b):]
    for sep in ("#", "/"):
        if sep in uri:
            i = uri.rindex(sep)
            if i + 1 < len(uri):
                return uri[: i + 1], uri[i + 1:]
    return uri, ""


class Namer(object):
    def __init__(self, prefixes=None, rename=None):
        self.prefixes = dict(DEFAULT_PREFIXES)
        if prefixes:
            self.prefixes.update(prefixes)
        self.rename = rename  # function prefix -> prefix (not applied to prov/xsd)
        self.cache = {}
        self.n = 0

    def ns(self, base):
        ns = self.cache.get(base)
        if ns is None:
            p = self.prefixes.get(base)
            if p is None:
                self.n += 1
                p = "ns%d" % self.n
            if self.rename and p not in ("prov", "xsd"):
                p = self.rename(p)
            ns = self.cache[base] = Namespace(p, base)
        return ns

    def qn(self, uri):
        base, local = split(uri)
        return QualifiedName(self.ns(base), local)


def value(vo, namer):
    k = vo[0]
    if k in ("str", "int", "bool"):
        return vo[1]
    if k == "float":
        return float(vo[1])
    if k == "dt":
        return datetime.datetime.fromisoformat(vo[1])
    if k == "qn":
        return namer.qn(vo[1])
    if k == "uri":
        return Identifier(vo[1])
    if k == "lit":
        _, lex, dt, lang = vo
        return Literal(lex, None if dt is None else namer.qn(dt), lang)
    raise ValueError(vo)


def add_records(container, records, namer):
    for t, i, attrs in records:
        container.new_record(namer.qn(t), None if i is None else namer.qn(i),
                             [(namer.qn(a), value(v, namer)) for a, v in attrs])


def rebuild(mdoc, prefixes=None, rename=None):
    top, bundles = mdoc
    namer = Namer(prefixes, rename)
    d = ProvDocument()
    add_records(d, top, namer)
    for uri, recs in bundles:
        b = d.bundle(namer.qn(uri))
        add_records(b, recs, namer)
    return d
