"""Shape sweeps (DESIGN 4.2 / C01(a)): full cartesian products of small finite dimensions,
each case executed on the real API through the document machine (so every case is also
checked against the reference model) and judged by the property's oracle.

A case is a tuple of ops (not indices); it is its own replay recipe.
"""
import itertools

from . import explore, machine, values
from .machine import RELATIONS, REQUIRED, TIME_ATTRS

S = lambda p: ("s", p)
Q = lambda p: ("q", p)
BARE = ("b",)

# namespace environments: (name, prelude ops, scope of the records, spelling, urikey)
ENVS = [
    ("plain-prefix", (("ns", "D", "ex", "A"),), "D", S("ex"), "A"),
    ("default-ns", (("def", "D", "A"),), "D", BARE, "A"),
    ("minted-prefix", (("ns", "D", "ex", "B"),), "D", Q("ex"), "A"),
    ("alias-prefix", (("ns", "D", "ex", "A"), ("ns", "D", "q", "A")), "D", S("q"), "A"),
    ("foreign-qname", (), "D", Q("zz"), "A"),
    ("plain-prefix/bundle", (("ns", "D", "ex", "A"), ("bun", "B1", ("A", "b1", S("ex")))), "B1", S("ex"), "A"),
    ("default-ns/bundle", (("def", "D", "A"), ("bun", "B1", ("A", "b1", BARE))), "B1", BARE, "A"),
    ("bundle-own-clashing-prefix",
     (("ns", "D", "ex", "B"), ("el", "D", "entity", ("B", "top", S("ex"))),
      # the document uses the same prefixed names (attribute, datatype, value) as the bundle will, under another URI
      ("at", ("B", "k", S("ex")), "l_exBdt"), ("at", ("B", "k", S("ex")), "q_exB"),
      ("bun", "B1", ("C", "b1", Q("bn"))), ("ns", "B1", "ex", "A")), "B1", S("ex"), "A"),
    ("bundle-own-default",
     (("def", "D", "B"), ("el", "D", "entity", ("B", "top", BARE)), ("bun", "B1", ("C", "b1", Q("bn"))),
      ("def", "B1", "A")), "B1", BARE, "A"),
    ("bundle-own-prefix", (("bun", "B1", ("C", "b1", Q("bn"))), ("ns", "B1", "ex", "A")), "B1", S("ex"), "A"),
    ("foreign-qname/bundle", (("bun", "B1", ("C", "b1", Q("bn"))),), "B1", Q("zz"), "A"),
    # a prefix that PROV-JSON reserves as the key of the default namespace
    ("prefix-named-default", (("ns", "D", "default", "A"),), "D", S("default"), "A"),
    # two bundles whose identifiers print alike (ex:b1) but differ in URI: the second was built on its own
    ("two-bundles-printing-alike",
     (("ns", "D", "ex", "A"), ("bun", "B1", ("A", "b1", S("ex"))), ("el", "B1", "entity", ("A", "in1", S("ex"))),
      ("addb", "B2", ("B", "b1", Q("ex")))), "B2", Q("ex"), "B"),
    # the prefix a clash on 'ex' would generate (ex_1) is already taken by a third namespace
    ("generated-looking-prefix-taken",
     (("ns", "D", "ex_1", "C"), ("el", "D", "entity", ("C", "top", S("ex_1"))), ("ns", "D", "ex", "B")), "D", Q("ex"), "A"),
    ("doc-and-bundle-records",
     (("ns", "D", "ex", "A"), ("el", "D", "entity", ("A", "top", S("ex"))), ("bun", "B1", ("A", "b1", S("ex")))),
     "B1", S("ex"), "A"),
]

ARG_LOCAL = {
    "entity": "e1", "activity": "a1", "informed": "a2", "informant": "a1", "trigger": "e2", "starter": "a2",
    "ender": "a2", "generatedEntity": "e2", "usedEntity": "e1", "generation": "g1", "usage": "u1",
    "agent": "ag1", "plan": "pl1", "delegate": "ag2", "responsible": "ag1", "influencee": "e2",
    "influencer": "e1", "specificEntity": "e2", "generalEntity": "e1", "alternate1": "e1", "alternate2": "e2",
    "bundle": "bb", "collection": "c1",
}


def shapes():
    """all (kind, mask) shapes: required arguments present, every subset of optional ones
    (55 for the 18 record kinds, + the convenience factories collection / revision / quotation / primary_source)"""
    out = [("entity", ()), ("agent", ()), ("collection", ())]
    for m in itertools.product((None, "t1"), (None, "t3")):
        out.append(("activity", m))
    for kind, (tname, formals) in RELATIONS.items():
        req = REQUIRED[kind]
        opt = formals[req:]
        for mask in itertools.product((False, True), repeat=len(opt)):
            out.append((kind, (True,) * req + mask))
    return out


def shape_ops(scope, spelling, urikey, kind, mask, idmode, local_id="r1"):
    def nm(local):
        return (urikey, local, spelling)
    if kind in ("entity", "agent", "collection"):
        return ("el", scope, kind, nm(local_id))
    if kind == "activity":
        return ("el", scope, kind, nm(local_id), mask)
    tname, formals = RELATIONS[kind]
    args = []
    for fa, present in zip(formals, mask):
        if not present:
            args.append(None)
        elif fa in TIME_ATTRS:
            args.append("t3")
        else:
            args.append(nm(ARG_LOCAL[fa]))
    return ("rel", scope, kind, None if idmode == "anon" else nm(local_id), tuple(args))


PROV_ATTR_NAMES = [("P", l, Q("prov")) for l in ("type", "label", "value", "location", "role")]
# an attribute name in the XML Schema namespace (PROV-XML binds 'xsd' to the URI without '#')
XSD_ATTR_NAME = ("X", "maxLength", Q("xsd"))
# a name in the PROV namespace that is not one of PROV-DM's attributes (its local part resembles the time attributes)
PROV_OTHER_ATTR_NAME = ("P", "generatedAtTime", Q("prov"))
# an attribute name in the third namespace the library pre-binds (xsi)
XSI_ATTR_NAME = ("XI", "note", Q("xsi"))
# application attributes whose LOCAL names are PROV-DM argument / attribute names, in another fragment-style namespace
FOREIGN_ARGNAME_ATTRS = [("H", l, Q("voc")) for l in ("entity", "activity", "agent", "time", "type", "label")]
# a non-ASCII (but NCName) attribute-name local part
NONASCII_ATTR_NAME = ("A", "cl\u00e9_\u6f22", Q("ex"))
# values that compare equal in Python but differ in kind, placed on DIFFERENT records / attributes
# (legal: the quantifier only excludes them inside one attribute)
ACROSS = [("i_1", "b_T"), ("b_T", "i_1"), ("i_1", "f_1"), ("f_1", "i_1"), ("b_T", "f_1"), ("f_1", "b_T"),
          ("i_0", "b_F"), ("b_F", "i_0"), ("i_0", "f_0"), ("f_0", "b_F"), ("f_negzero", "f_0"), ("s_1", "i_1"),
          ("s_True", "b_T"), ("d_utc", "d_naive"), ("d_530", "d_530_as_utc"), ("d_530_as_utc", "d_530"),
          ("i_2", "f_2_0"), ("f_2_0", "i_2")]

PAIRS = [("s_a", "i_2"), ("i_2", "f_2_5"), ("b_T", "s_True"), ("l_lang", "s_a"), ("q_exA", "u_plain"),
         ("s_a", "s_quote"), ("i_1", "i_2"), ("d_naive", "d_utc"), ("s_1", "i_2"), ("l_exdt", "s_a")]


SMALL_VALUES = [k for k, v in values.VALUES.items() if "big" not in v.tags]


def extras(tier, which, spelling, urikey):
    """list of attribute-op suffix tuples"""
    k = (urikey, "k", spelling)
    out = []
    if which in ("none", "all", "basic"):
        out.append(())
    if which == "basic":
        for v in ("s_a", "i_2", "l_lang", "q_exB"):
            out.append((("at", k, v),))
    if which == "all":
        for v in SMALL_VALUES:
            out.append((("at", k, v),))
        for pn in PROV_ATTR_NAMES:
            for v in SMALL_VALUES:
                out.append((("at", pn, v),))
        for v in SMALL_VALUES:
            out.append((("at", XSD_ATTR_NAME, v),))
        for v in ("s_a", "s_uni", "i_2", "q_exA", "l_lang"):
            out.append((("at", NONASCII_ATTR_NAME, v),))
        for fn in FOREIGN_ARGNAME_ATTRS:
            for v in ("s_a", "i_2", "q_exA"):
                out.append((("at", fn, v),))
        for v in SMALL_VALUES:
            out.append((("at", PROV_OTHER_ATTR_NAME, v),))
        for v in ("s_a", "i_2", "q_exA", "l_exdt"):
            out.append((("at", XSI_ATTR_NAME, v),))
        # ... and the same name given as a full URI string
        out.append((("at", ("XI", "note", ("u",)), "s_a"),))
        # PROV-DM argument names as additional attributes (of record kinds that may not have that argument)
        for l in ("activity", "agent", "plan", "entity", "starter", "generation"):
            for v in ("q_exA", "q_exB"):
                out.append((("at", ("P", l, Q("prov")), v),))
        for l in ("time", "startTime", "endTime"):
            for v in ("d_naive", "d_530", "d_us_utc"):
                out.append((("at", ("P", l, Q("prov")), v),))
        for a, b in PAIRS:
            out.append((("at", k, a), ("at", k, b)))
            out.append((("at", PROV_ATTR_NAMES[0], a), ("at", PROV_ATTR_NAMES[0], b)))
        # several values under one of the PROV attributes that PROV-XML orders, followed by later ones
        for pn in PROV_ATTR_NAMES:
            out.append((("at", pn, "s_a"), ("at", pn, "s_quote"), ("at", pn, "s_uni"),
                        ("at", PROV_ATTR_NAMES[0], "q_exA"), ("at", PROV_ATTR_NAMES[2], "i_2"), ("at", k, "i_2")))
        k2 = (urikey, "k2", spelling)
        for a, b in ACROSS:
            out.append((("at", k, a), ("at", k2, b)))
    return out


# quantity (the 3rd, 11th, 12th ... item of a kind): string-only and mixed lists of values that are pairwise
# different under Python equality
DISTINCT_STRINGS = ["s_a", "s_quote", "s_bslash", "s_tab", "s_uni", "s_markup", "s_pad", "s_exx", "s_provx", "s_True",
                    "s_1", "s_nl"]
DISTINCT_MIXED = ["s_a", "i_2", "f_2_5", "b_T", "d_naive", "u_plain", "l_lang", "q_exA", "q_exB", "i_neg", "s_uni",
                  "l_exdt", "d_530", "i_big", "u_urn", "s_1", "q_fooC", "f_1e300", "l_short", "s_quote", "d_us",
                  "l_lang_nl", "s_tab", "b_F", "f_min", "s_markup"]


def quantities(tier):
    return (3, 11, 12, 14) if tier != "thorough" else (3, 10, 11, 12, 14, 26, 101)


def quantity_cases(tier, env, prelude, scope, spelling, urikey):
    out = []
    nm = lambda l: (urikey, l, spelling)
    k = nm("k")
    for n in quantities(tier):
        tag = "%s|quantity-%d|" % (env, n)
        ents = ()
        for i in range(n):
            ents += (("el", scope, "entity", nm("n%d" % i)), ("at", k, "s_a"))
        out.append((tag + "entities", prelude + ents))
        out.append((tag + "anonymous-generations", prelude + tuple(
            ("rel", scope, "generation", None, (nm("e%d" % i), nm("a1"), None)) for i in range(n))))
        out.append((tag + "identical-anonymous-usages", prelude + tuple(
            ("rel", scope, "usage", None, (nm("a1"), nm("e1"), None)) for i in range(n))))
        out.append((tag + "identified-derivations", prelude + tuple(
            ("rel", scope, "derivation", nm("d%d" % i), (nm("e%d" % (i + 1)), nm("e%d" % i), None, None, None)) for i in range(n))))
        out.append((tag + "attribute-names", prelude + (("el", scope, "entity", nm("r1")),) + tuple(
            ("at", nm("k%d" % i), "s_a") for i in range(n))))
        for lname, lst in (("strings", DISTINCT_STRINGS), ("mixed", DISTINCT_MIXED)):
            if n <= len(lst):
                out.append((tag + "values-of-one-attribute-" + lname, prelude + (("el", scope, "entity", nm("r1")),) + tuple(
                    ("at", k, v) for v in lst[:n])))
                out.append((tag + "prov-types-" + lname, prelude + (("el", scope, "entity", nm("r1")),) + tuple(
                    ("at", PROV_ATTR_NAMES[0], v) for v in lst[:n])))
        if n <= 14:
            # n namespaces offered under one prefix (names given as QualifiedName objects): ex, ex_1, ... ex_<n-1>
            out.append((tag + "namespaces-under-one-prefix", prelude + tuple(
                ("el", scope, "entity", ("N%d" % i, "item", Q("ex"))) for i in range(n))))
        if scope == "D":
            buns = ()
            for i in range(n):
                buns += (("bun", "Q%d" % i, nm("qb%d" % i)), ("el", "Q%d" % i, "entity", nm("x")), ("at", k, "s_a"))
            out.append((tag + "bundles", prelude + buns))
    return out


REP_SHAPES = [("entity", ()), ("activity", ("t1", None)), ("generation", (True, True, True)),
              ("attribution", (True, True)), ("membership", (True, True))]


def cases(tier):
    """the list of sweep cases: tuples (tag, ops)"""
    out = []
    allshapes = shapes()
    for env, prelude, scope, spelling, urikey in ENVS:
        # (1) every shape x id mode x basic extras
        for kind, mask in allshapes:
            rel = kind in RELATIONS
            for idmode in (("anon", "id", "twice") if rel else ("id", "twice")):
                for ex in extras(tier, "basic", spelling, urikey):
                    rec = shape_ops(scope, spelling, urikey, kind, mask, idmode)
                    ops = prelude + (rec,) + ex
                    if idmode == "twice":
                        ops = ops + (rec,) + ex[:1]
                    out.append(("%s|%s%r|%s" % (env, kind, mask, idmode), ops))
        # (1b) every record kind x every PROV class name as prov:type (subtype element names in PROV-XML,
        #      qualified forms in PROV-O)
        for kind, mask in allshapes:
            if any(m is False for m in mask):
                continue
            rel = kind in RELATIONS
            for v in values.VALUES:
                if not v.startswith("q_prov"):
                    continue
                rec = shape_ops(scope, spelling, urikey, kind, mask, "id" if not rel or kind not in machine.NO_ID_FACTORY else "anon")
                out.append(("%s|%s|prov-class-type" % (env, kind), prelude + (rec, ("at", PROV_ATTR_NAMES[0], v))))
        # (1c) every record kind (all arguments present) x application attributes named like PROV-DM arguments
        for kind, mask in allshapes:
            if any(m is False for m in mask) or kind in ("specialization", "alternate", "mention", "membership"):
                continue
            rel = kind in RELATIONS
            for idmode in (("anon", "id") if rel else ("id",)):
                for fn in FOREIGN_ARGNAME_ATTRS:
                    for v in ("s_a", "q_exA"):
                        rec = shape_ops(scope, spelling, urikey, kind, mask, idmode)
                        out.append(("%s|%s|%s|foreign-argument-name" % (env, kind, idmode), prelude + (rec, ("at", fn, v))))
        # (2) every value / attribute name / pair x representative shapes
        shapes2 = REP_SHAPES if tier == "thorough" else REP_SHAPES[:3]
        for kind, mask in shapes2:
            rel = kind in RELATIONS
            for idmode in (("anon", "id") if rel else ("id",)):
                if kind == "membership" and idmode == "id":
                    continue
                for ex in extras(tier, "all", spelling, urikey):
                    if not ex:
                        continue
                    rec = shape_ops(scope, spelling, urikey, kind, mask, idmode)
                    out.append(("%s|%s|%s|values" % (env, kind, idmode), prelude + (rec,) + ex))
                # the same attribute on two different records holding equal-but-different-kind values
                k = (urikey, "k", spelling)
                for a, b in ACROSS:
                    r1 = shape_ops(scope, spelling, urikey, kind, mask, idmode, "r1")
                    r2 = shape_ops(scope, spelling, urikey, "entity", (), "id", "r2")
                    out.append(("%s|%s|%s|across-records" % (env, kind, idmode),
                                prelude + (r1, ("at", k, a), r2, ("at", k, b))))
        # (3) a colon inside the local part (ex:run:42), names given as 'prefix:local' strings or QualifiedNames
        if spelling[0] in ("s", "q"):
            for kind, mask in REP_SHAPES[:3]:
                rel = kind in RELATIONS
                rec = shape_ops(scope, spelling, urikey, kind, mask, "id", "run:42")
                k = (urikey, "k", spelling)
                out.append(("%s|%s|id|colon-in-local-part" % (env, kind), prelude + (rec, ("at", k, "q_colon"), ("at", k, "s_a"))))
        if spelling[0] == "b":
            # ... and in the default namespace, given as a QualifiedName object with an empty prefix
            for kind, mask in REP_SHAPES[:3]:
                rec = shape_ops(scope, Q(""), urikey, kind, mask, "id", "run:42")
                out.append(("%s|%s|id|colon-in-local-part-of-an-unprefixed-name" % (env, kind),
                            prelude + (rec, ("at", (urikey, "k", spelling), "s_a"))))
        # (4) quantity
        out.extend(quantity_cases(tier, env, prelude, scope, spelling, urikey))
    return out


def run_sweep(modname, prop, tier, seed, which, params=None):
    import importlib
    import time
    from . import runner
    t0 = time.time()
    mod = importlib.import_module(modname)
    spec = mod.make_spec(tier, params or {})
    cs = cases(tier)
    out = explore.pmap(modname, tier, params or {}, "sweep_case", cs, chunk=100)
    vs, nsig = runner.violations_json(spec, out)
    cov = {
        "states": out.nontrivial,
        "transitions": out.transitions,
        "traces_validated_against_impl": out.conform,
        "evaluations": out.evaluations,
        "distinct_nontrivial": out.nontrivial,
        "rule": ("full products: 12 namespace environments x 55 record shapes x id modes x basic extras, and "
                 "12 environments x representative shapes x every value/attribute-name/value-pair; each case is a "
                 "distinct op list; non-trivial = built conformantly to the reference model and judged"),
        "samples": out.samples[:2],
        "exhaustive": True,
        "cases": len(cs),
        "filters": dict(out.filters),
        "outcomes": dict(out.outcomes),
    }
    return {"property": prop, "coverage": cov, "violations": vs, "signatures": nsig,
            "wall_s": round(time.time() - t0, 2)}
