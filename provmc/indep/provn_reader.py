"""Independent PROV-N reader: hand-written tokenizer + recursive-descent parser of the W3C
PROV-N grammar subset of DESIGN appendix A.1.  Imports nothing from `prov`.

read(text) -> (document observation as in json_reader, None)  or  (None, "located syntax error")
"""
import re

from .json_reader import PROV, XSD, parse_time, typed_value, sortkey, Unresolvable

# expression name -> (type local name, formal attribute names, number of leading arguments that must be
# identifiers, has optional identifier?, accepts attributes?)
EXPR = {
    "entity": ("Entity", (), 0, False, True),
    "agent": ("Agent", (), 0, False, True),
    "activity": ("Activity", ("startTime", "endTime"), 0, False, True),
    "wasGeneratedBy": ("Generation", ("entity", "activity", "time"), 1, True, True),
    "used": ("Usage", ("activity", "entity", "time"), 1, True, True),
    "wasInformedBy": ("Communication", ("informed", "informant"), 2, True, True),
    "wasStartedBy": ("Start", ("activity", "trigger", "starter", "time"), 1, True, True),
    "wasEndedBy": ("End", ("activity", "trigger", "ender", "time"), 1, True, True),
    "wasInvalidatedBy": ("Invalidation", ("entity", "activity", "time"), 1, True, True),
    "wasDerivedFrom": ("Derivation", ("generatedEntity", "usedEntity", "activity", "generation", "usage"), 2, True, True),
    "wasAttributedTo": ("Attribution", ("entity", "agent"), 2, True, True),
    "wasAssociatedWith": ("Association", ("activity", "agent", "plan"), 1, True, True),
    "actedOnBehalfOf": ("Delegation", ("delegate", "responsible", "activity"), 2, True, True),
    "wasInfluencedBy": ("Influence", ("influencee", "influencer"), 2, True, True),
    "alternateOf": ("Alternate", ("alternate1", "alternate2"), 2, False, False),
    "specializationOf": ("Specialization", ("specificEntity", "generalEntity"), 2, False, False),
    "hadMember": ("Membership", ("collection", "entity"), 2, False, False),
    "mentionOf": ("Mention", ("specificEntity", "generalEntity", "bundle"), 3, False, False),
}
# allowed numbers of positional arguments (the grammar's optional groups are all-or-nothing)
ARITY = {
    "entity": (0,), "agent": (0,), "activity": (0, 2),
    "wasGeneratedBy": (1, 3), "used": (1, 3), "wasInvalidatedBy": (1, 3),
    "wasStartedBy": (1, 4), "wasEndedBy": (1, 4),
    "wasInformedBy": (2,), "wasAttributedTo": (2,), "wasInfluencedBy": (2,),
    "wasAssociatedWith": (1, 3), "actedOnBehalfOf": (2, 3), "wasDerivedFrom": (2, 5),
    "alternateOf": (2,), "specializationOf": (2,), "hadMember": (2,), "mentionOf": (3,),
}
TIME = {"time", "startTime", "endTime"}

NAME_RUN = re.compile(r"[A-Za-z0-9_\-./@~&+*?#$!:\u00C0-\uFFFF]+")
PREFIX_OK = re.compile(r"^[A-Za-z_\u00C0-\uFFFF][A-Za-z0-9_\-.\u00C0-\uFFFF]*$")
LOCAL_OK = re.compile(r"^[A-Za-z0-9_/@~&+*?#$!\u00C0-\uFFFF][A-Za-z0-9_\-./@~&+*?#$!\u00C0-\uFFFF]*$")


def valid_qname(text):
    """QUALIFIED_NAME ::= (PN_PREFIX ":")? PN_LOCAL | PN_PREFIX ":" """
    if text.count(":") > 1:
        return False
    if ":" in text:
        p, l = text.split(":")
        if not PREFIX_OK.match(p) or p.endswith("."):
            return False
        return l == "" or bool(LOCAL_OK.match(l) and not l.endswith("."))
    return bool(LOCAL_OK.match(text) and not text.endswith("."))


DATETIME_RE = re.compile(r"-?\d{4,}-\d\d-\d\dT\d\d:\d\d:\d\d(?:\.\d+)?(?:Z|[+-]\d\d:\d\d)?")
INT_RE = re.compile(r"-?\d+")
LANG_RE = re.compile(r"@[a-zA-Z]+(?:-[a-zA-Z0-9]+)*")
ECHAR = {"t": "\t", "b": "\b", "n": "\n", "r": "\r", "f": "\f", "\\": "\\", '"': '"', "'": "'"}


class SyntaxErr(Exception):
    pass


class Tok(object):
    __slots__ = ("kind", "val", "pos")

    def __init__(self, kind, val, pos):
        self.kind, self.val, self.pos = kind, val, pos

    def __repr__(self):
        return "%s(%r)@%d" % (self.kind, self.val, self.pos)


def tokenize(s):
    toks = []
    i, n = 0, len(s)
    while i < n:
        c = s[i]
        if c in " \t\r\n":
            i += 1
            continue
        if s.startswith("//", i):
            j = s.find("\n", i)
            i = n if j < 0 else j
            continue
        if s.startswith("/*", i):
            j = s.find("*/", i)
            if j < 0:
                raise SyntaxErr("unterminated comment at %d" % i)
            i = j + 2
            continue
        if c in "(),;[]=":
            toks.append(Tok(c, c, i))
            i += 1
            continue
        if s.startswith("%%", i):
            toks.append(Tok("%%", "%%", i))
            i += 2
            continue
        if c == "<":
            j = s.find(">", i)
            if j < 0:
                raise SyntaxErr("unterminated IRI at %d" % i)
            iri = s[i + 1:j]
            if re.search(r'[\x00-\x20<>"{}|^`\\]', iri):
                raise SyntaxErr("illegal character in IRI at %d" % i)
            toks.append(Tok("IRI", iri, i))
            i = j + 1
            continue
        if s.startswith('"""', i):
            j = i + 3
            buf = []
            while True:
                if j >= n:
                    raise SyntaxErr("unterminated long string starting at %d" % i)
                if s.startswith('"""', j):
                    j += 3
                    break
                ch = s[j]
                if ch == "\\":
                    if j + 1 >= n or s[j + 1] not in ECHAR:
                        raise SyntaxErr("bad escape %r at %d" % (s[j:j + 2], j))
                    buf.append(ECHAR[s[j + 1]])
                    j += 2
                else:
                    buf.append(ch)
                    j += 1
            toks.append(Tok("STRING", "".join(buf), i))
            i = j
            continue
        if c == '"':
            j = i + 1
            buf = []
            while True:
                if j >= n:
                    raise SyntaxErr("unterminated string starting at %d" % i)
                ch = s[j]
                if ch == '"':
                    j += 1
                    break
                if ch in "\n\r":
                    raise SyntaxErr("line break inside a single-line string at %d" % j)
                if ch == "\\":
                    if j + 1 >= n or s[j + 1] not in ECHAR:
                        raise SyntaxErr("bad escape %r at %d" % (s[j:j + 2], j))
                    buf.append(ECHAR[s[j + 1]])
                    j += 2
                else:
                    buf.append(ch)
                    j += 1
            toks.append(Tok("STRING", "".join(buf), i))
            i = j
            continue
        if c == "'":
            j = s.find("'", i + 1)
            if j < 0:
                raise SyntaxErr("unterminated quoted qualified name at %d" % i)
            toks.append(Tok("QVAL", s[i + 1:j], i))
            i = j + 1
            continue
        if c == "@":
            m = LANG_RE.match(s, i)
            if not m:
                raise SyntaxErr("bad language tag at %d" % i)
            toks.append(Tok("LANG", m.group(0)[1:], i))
            i = m.end()
            continue
        m = DATETIME_RE.match(s, i)
        if m:
            toks.append(Tok("DATETIME", m.group(0), i))
            i = m.end()
            continue
        if c == "-" and (i + 1 >= n or not (s[i + 1].isalnum())):
            toks.append(Tok("-", "-", i))
            i += 1
            continue
        m = INT_RE.match(s, i)
        if m and (m.end() >= n or not re.match(r"[A-Za-z_:./\-]", s[m.end()])):
            toks.append(Tok("INT", m.group(0), i))
            i = m.end()
            continue
        m = NAME_RUN.match(s, i)
        if m and m.end() > i:
            if not valid_qname(m.group(0)):
                raise SyntaxErr("%r at %d is not a qualified name" % (m.group(0), i))
            toks.append(Tok("NAME", m.group(0), i))
            i = m.end()
            continue
        raise SyntaxErr("unexpected character %r at %d" % (c, i))
    toks.append(Tok("EOF", None, n))
    return toks


class Scope(object):
    def __init__(self, parent=None):
        self.parent = parent
        self.prefixes = {} if parent is not None else {"prov": PROV, "xsd": XSD}
        self.default = None

    def resolve(self, name):
        if ":" in name:
            p, local = name.split(":", 1)
            s = self
            while s is not None:
                if p in s.prefixes:
                    return s.prefixes[p] + local
                s = s.parent
            raise SyntaxErr("undeclared prefix in %r" % name)
        s = self
        while s is not None:
            if s.default is not None:
                return s.default + name
            s = s.parent
        raise SyntaxErr("unprefixed name %r without default namespace" % name)


class Parser(object):
    def __init__(self, text):
        self.toks = tokenize(text)
        self.i = 0

    def peek(self):
        return self.toks[self.i]

    def next(self):
        t = self.toks[self.i]
        self.i += 1
        return t

    def expect(self, kind, val=None):
        t = self.next()
        if t.kind != kind or (val is not None and t.val != val):
            raise SyntaxErr("expected %s%s, found %r" % (kind, "" if val is None else " " + val, t))
        return t

    def keyword(self, word):
        t = self.peek()
        return t.kind == "NAME" and t.val == word

    # document ::= "document" nsDecls? expression* bundle* "endDocument"
    def document(self):
        self.expect("NAME", "document")
        scope = Scope()
        self.ns_decls(scope)
        records = self.expressions(scope, ("bundle", "endDocument"))
        bundles = []
        while self.keyword("bundle"):
            self.next()
            idt = self.expect("NAME")
            bscope = Scope(scope)
            self.ns_decls(bscope)
            recs = self.expressions(bscope, ("endBundle",))
            self.expect("NAME", "endBundle")
            bundles.append((bscope.resolve(idt.val), recs))
        self.expect("NAME", "endDocument")
        self.expect("EOF")
        return records, bundles

    def ns_decls(self, scope):
        first = True
        while True:
            if self.keyword("default"):
                if not first:
                    raise SyntaxErr("'default' must be the first namespace declaration (at %d)" % self.peek().pos)
                self.next()
                scope.default = self.expect("IRI").val
            elif self.keyword("prefix"):
                self.next()
                p = self.expect("NAME").val
                if ":" in p or not re.match(r"^[A-Za-z_][A-Za-z0-9_\-.]*$", p) or p.endswith("."):
                    raise SyntaxErr("bad prefix %r" % p)
                scope.prefixes[p] = self.expect("IRI").val
            else:
                return
            first = False

    def expressions(self, scope, stop):
        out = []
        while True:
            t = self.peek()
            if t.kind == "NAME" and t.val in stop:
                return out
            if t.kind != "NAME" or t.val not in EXPR:
                raise SyntaxErr("expected an expression, found %r" % t)
            out.append(self.expression(scope))

    def identifier(self, scope):
        t = self.expect("NAME")
        if t.val.endswith("."):
            raise SyntaxErr("qualified name %r ends with '.'" % t.val)
        return scope.resolve(t.val)

    def expression(self, scope):
        name = self.next().val
        tname, formals, nreq, has_optid, has_attrs = EXPR[name]
        self.expect("(")
        ident = None
        attrs = []
        positional = []
        if name in ("entity", "agent", "activity"):
            ident = self.identifier(scope)
        else:
            # optional identifier: (identifier | "-") ";"
            save = self.i
            t = self.next()
            if t.kind in ("NAME", "-") and self.peek().kind == ";":
                if not has_optid:
                    raise SyntaxErr("%s takes no identifier (at %d)" % (name, t.pos))
                self.next()
                if t.kind == "NAME":
                    self.i = save
                    ident = self.identifier(scope)
                    self.expect(";")
            else:
                self.i = save
            positional.append(self.argument(scope, formals[0], True))
        # remaining positional arguments
        while self.peek().kind == ",":
            self.next()
            if self.peek().kind == "[":
                break
            k = len(positional)
            if k >= len(formals):
                raise SyntaxErr("too many arguments for %s (at %d)" % (name, self.peek().pos))
            positional.append(self.argument(scope, formals[k], k < nreq))
        if len(positional) not in ARITY[name]:
            raise SyntaxErr("%s with %d arguments is not a production of the grammar" % (name, len(positional)))
        if self.peek().kind == "[":
            if not has_attrs:
                raise SyntaxErr("%s takes no attributes (at %d)" % (name, self.peek().pos))
            self.next()
            if self.peek().kind != "]":
                while True:
                    a = self.identifier(scope)
                    self.expect("=")
                    attrs.append((a, self.literal(scope)))
                    if self.peek().kind == ",":
                        self.next()
                        continue
                    break
            self.expect("]")
        self.expect(")")
        for fa, v in zip(formals, positional):
            if v is not None:
                attrs.append((PROV + fa, v))
        return (PROV + tname, ident, tuple(sorted(set(attrs), key=sortkey)))

    def argument(self, scope, formal, required):
        t = self.peek()
        if t.kind == "-":
            if required:
                raise SyntaxErr("'-' in a position where the grammar requires an identifier (at %d)" % t.pos)
            self.next()
            return None
        if formal in TIME:
            t = self.expect("DATETIME")
            return parse_time(t.val)
        return ("qn", self.identifier(scope))

    def literal(self, scope):
        t = self.next()
        if t.kind == "INT":
            return ("int", int(t.val))
        if t.kind == "QVAL":
            return ("qn", scope.resolve(t.val))
        if t.kind == "STRING":
            if self.peek().kind == "%%":
                self.next()
                dt = self.identifier(scope)
                try:
                    return typed_value(t.val, dt, None, scope.resolve)
                except ValueError:
                    return ("lit", t.val, dt, None)
            if self.peek().kind == "LANG":
                return ("lit", t.val, PROV + "InternationalizedString", self.next().val)
            return ("str", t.val)
        raise SyntaxErr("expected a literal, found %r" % t)


def read(text):
    try:
        p = Parser(text)
        records, bundles = p.document()
    except SyntaxErr as e:
        return None, str(e)
    merged = {}
    for u, rs in bundles:
        merged.setdefault(u, []).extend(rs)
    doc = (tuple(sorted(records, key=sortkey)),
           tuple(sorted((u, tuple(sorted(rs, key=sortkey))) for u, rs in merged.items())))
    return doc, None
