"""Foreign PROV-XML writer: reference document -> spec-valid PROV-XML text in a chosen dialect.
Written from the PROV-XML structural rules (DESIGN appendix A.3); plain string building, no
lxml, nothing from `prov`.
"""
from xml.sax.saxutils import escape, quoteattr

from .json_reader import PROV, XSD, REF_ATTRS, TIME_ATTRS
from .xml_reader import ELEMENTS, FORMALS, COMMON_ORDER, XSD_XML, XSI
from .foreign_json import Sites

BASE_ELEMENT = {}
SUBTYPE_ELEMENT = {}
for el, (base, sub) in ELEMENTS.items():
    if sub is None:
        BASE_ELEMENT[PROV + base] = el
    else:
        SUBTYPE_ELEMENT[(PROV + base, PROV + sub)] = el

DEVIATIONS = [
    "subtype-element", "xsi-type-on-record", "str-typed", "nested-xmlns", "other-xsd-prefix", "multi-member",
    "comments", "prov-other", "default-ns", "bool-01", "time-Z", "int-as-long", "lang-with-type", "unsorted-extras",
    "shadowed-root-prefix", "comment-in-text", "cdata-text", "charref-text",
    "outer-comment", "pi-in-record", "pi-in-text", "empty-lang", "xsi-type-on-time", "time-end-of-day",
    "latin1-declaration", "qname-text-padded",
]


class XNamer(object):
    def __init__(self, prefixes, default=None, xsdp="xsd"):
        self.prefixes = dict(prefixes)
        self.prefixes[PROV] = "prov"
        self.prefixes[XSD] = xsdp
        self.default = default
        self.used = {}

    def split(self, uri):
        best = None
        for base in list(self.prefixes) + ([self.default] if self.default else []):
            if uri.startswith(base) and len(uri) > len(base) and (best is None or len(base) > len(best)):
                best = base
        if best is None:
            for sep in ("#", "/"):
                if sep in uri and uri.rindex(sep) + 1 < len(uri):
                    best = uri[: uri.rindex(sep) + 1]
                    break
            self.prefixes[best] = "n%d" % len(self.prefixes)
        return best, uri[len(best):]

    def qname(self, uri):
        base, local = self.split(uri)
        if base == self.default:
            self.used[None] = base
            return local
        self.used[self.prefixes[base]] = base
        return "%s:%s" % (self.prefixes[base], local)


def value_xml(a, v, namer, sites, xsdp):
    """returns (extra attributes string, text)"""
    k = v[0]
    local = a[len(PROV):] if a.startswith(PROV) else None
    if local in REF_ATTRS:
        return " prov:ref=%s" % quoteattr(namer.qname(v[1])), None
    if local in TIME_ATTRS:
        iso = v[1]
        if iso.endswith("+00:00") and sites.on("time-Z"):
            iso = iso[:-6] + "Z"
        if "T00:00:00" in iso and "." not in iso and sites.on("time-end-of-day"):
            from .foreign_json import end_of_day
            iso = end_of_day(iso)
        return (' xsi:type="%s:dateTime"' % xsdp) if sites.on("xsi-type-on-time") else "", iso
    if k == "str":
        if sites.on("empty-lang"):
            return ' xml:lang=""', v[1]
        if local != "label" and sites.on("str-typed"):
            return ' xsi:type="%s:string"' % xsdp, v[1]
        return "", v[1]
    if k == "int":
        return ' xsi:type="%s:%s"' % (xsdp, "long" if sites.on("int-as-long") else "int"), str(v[1])
    if k == "float":
        return ' xsi:type="%s:double"' % xsdp, v[1]
    if k == "bool":
        if sites.on("bool-01"):
            return ' xsi:type="%s:boolean"' % xsdp, "1" if v[1] else "0"
        return ' xsi:type="%s:boolean"' % xsdp, "true" if v[1] else "false"
    if k == "dt":
        iso = v[1]
        if iso.endswith("+00:00") and sites.on("time-Z"):
            iso = iso[:-6] + "Z"
        return ' xsi:type="%s:dateTime"' % xsdp, iso
    if k == "uri":
        return ' xsi:type="%s:anyURI"' % xsdp, v[1]
    if k == "qn":
        q = namer.qname(v[1])
        if sites.on("qname-text-padded"):
            # (xsd:QName's whitespace facet is "collapse": a pretty-printer may put the name on its own line)
            q = "\n      %s\n    " % q
        return ' xsi:type="%s:QName"' % xsdp, q
    if k == "lit":
        _, lex, dt, lang = v
        if lang is not None:
            extra = ' xml:lang=%s' % quoteattr(lang)
            if sites.on("lang-with-type"):
                extra += ' xsi:type="prov:InternationalizedString"'
            return extra, lex
        return " xsi:type=%s" % quoteattr(namer.qname(dt)), lex
    raise ValueError(v)


def spell_text(text, sites):
    """the character content of a value element, in one of the spellings XML allows for the same content"""
    if sites.on("comment-in-text"):
        h = len(text) // 2
        return escape(text[:h]) + "<!-- c -->" + escape(text[h:])
    if sites.on("pi-in-text"):
        h = len(text) // 2
        return escape(text[:h]) + "<?note in text?>" + escape(text[h:])
    if sites.on("cdata-text"):
        return "<![CDATA[" + text.replace("]]>", "]]]]><![CDATA[>") + "]]>"
    if sites.on("charref-text"):
        return "".join("&#x%X;" % ord(c) for c in text)
    return escape(text)


def _local_decls(namer, before):
    """xmlns attributes for the prefixes a record used (declared on the record element itself)"""
    decl = ""
    for p, base in sorted(namer.used.items(), key=lambda kv: str(kv[0])):
        if base in (PROV, XSD) or p is None:
            continue
        decl += " xmlns:%s=%s" % (p, quoteattr(base))
    return decl


def records_xml(records, namer, sites, xsdp, indent):
    out = []
    shadow = "shadowed-root-prefix" in sites.dialect
    recs = list(records)
    merged = []
    if "multi-member" in sites.dialect:
        groups, rest = {}, []
        for r in recs:
            t, i, attrs = r
            d = dict(attrs)
            ty = d.get(PROV + "type")
            plain = set(d) == {PROV + "collection", PROV + "entity"}
            typed = set(d) == {PROV + "collection", PROV + "entity", PROV + "type"} and len(attrs) == 3 and \
                ty[0] == "qn" and not ty[1].startswith(PROV)
            if t == PROV + "Membership" and i is None and (plain or typed):
                # memberships of one collection (that carry the same single application type) can share an element
                groups.setdefault((d[PROV + "collection"], ty if typed else None), []).append(d[PROV + "entity"])
            else:
                rest.append(r)
        recs = rest
        for (coll, ty), members in groups.items():
            if len(members) > 1 and sites.on("multi-member"):
                merged.append((coll, members, ty))
            else:
                for m in members:
                    recs.append((PROV + "Membership", None, ((PROV + "collection", coll), (PROV + "entity", m)) + (
                        ((PROV + "type", ty),) if ty else ())))
    for t, i, attrs in recs:
        attrs = list(attrs)
        el = BASE_ELEMENT[t]
        rec_attr = ""
        # a prov:type naming a PROV subtype of this record's base type may be spelt as the element name
        for a, v in list(attrs):
            if a == PROV + "type" and v[0] == "qn" and (t, v[1]) in SUBTYPE_ELEMENT:
                if sites.on("subtype-element"):
                    el = SUBTYPE_ELEMENT[(t, v[1])]
                    attrs.remove((a, v))
                    break
        for a, v in list(attrs):
            if a == PROV + "type" and v[0] == "qn" and not v[1].startswith(PROV):
                if sites.on("xsi-type-on-record"):
                    rec_attr = " xsi:type=%s" % quoteattr(namer.qname(v[1]))
                    attrs.remove((a, v))
                    break
        formals = FORMALS[t[len(PROV):]]

        def rank(av):
            a = av[0]
            if a.startswith(PROV):
                l = a[len(PROV):]
                if l in formals:
                    return (0, formals.index(l), "")
                if l in COMMON_ORDER:
                    return (1, COMMON_ORDER.index(l), repr(av[1]))
            return (2, 0, a + repr(av[1]))
        attrs.sort(key=rank)
        if sites.on("unsorted-extras"):
            head = [x for x in attrs if rank(x)[0] < 2]
            tail = [x for x in attrs if rank(x)[0] == 2]
            attrs = head + list(reversed(tail))
        if shadow:
            saved_used = dict(namer.used)
            namer.used = {}
        idattr = "" if i is None else " prov:id=%s" % quoteattr(namer.qname(i))
        nested = ""
        children = []
        for a, v in attrs:
            extra, text = value_xml(a, v, namer, sites, xsdp)
            tag = namer.qname(a)
            if text is None:
                children.append("%s  <%s%s/>" % (indent, tag, extra))
            else:
                children.append("%s  <%s%s>%s</%s>" % (indent, tag, extra, spell_text(text, sites), tag))
        if sites.on("comments"):
            children.insert(0, "%s  <!-- a comment -->" % indent)
        if sites.on("pi-in-record"):
            children.insert(0, "%s  <?note in record?>" % indent)
        if shadow:
            if rec_attr:
                pass  # the xsi:type value was spelt through namer.qname as well
            nested = _local_decls(namer, None)
            saved_used.update(namer.used)
            namer.used = saved_used
        if children:
            out.append("%s<prov:%s%s%s%s>" % (indent, el, idattr, rec_attr, nested))
            out.extend(children)
            out.append("%s</prov:%s>" % (indent, el))
        else:
            out.append("%s<prov:%s%s%s%s/>" % (indent, el, idattr, rec_attr, nested))
    for coll, members, ty in merged:
        on_record = ty is not None and sites.on("xsi-type-on-record")
        out.append("%s<prov:hadMember%s>" % (indent, " xsi:type=%s" % quoteattr(namer.qname(ty[1])) if on_record else ""))
        out.append("%s  <prov:collection prov:ref=%s/>" % (indent, quoteattr(namer.qname(coll[1]))))
        for m in members:
            out.append("%s  <prov:entity prov:ref=%s/>" % (indent, quoteattr(namer.qname(m[1]))))
        if ty is not None and not on_record:
            out.append("%s  <prov:type xsi:type=\"%s:QName\">%s</prov:type>" % (indent, xsdp, namer.qname(ty[1])))
        out.append("%s</prov:hadMember>" % indent)
    return out


def write(doc, prefixes, dialect=(), default=None):
    sites = Sites(dialect)
    top, bundles = doc
    if "default-ns" not in sites.dialect:
        default = None
    xsdp = "xs" if sites.on("other-xsd-prefix") else "xsd"
    namer = XNamer(prefixes, default, xsdp)
    body = records_xml(top, namer, sites, xsdp, "  ")
    nested = sites.on("nested-xmlns")
    bparts = []
    for buri, recs in bundles:
        bn = XNamer(namer.prefixes, namer.default, xsdp)
        inner = records_xml(recs, bn, sites, xsdp, "    ")
        bid = bn.qname(buri)
        namer.prefixes.update(bn.prefixes)
        decl = ""
        if nested:
            for p, base in sorted(bn.used.items(), key=lambda kv: str(kv[0])):
                if base in (PROV, XSD):
                    continue
                decl += " xmlns%s=%s" % ("" if p is None else ":" + p, quoteattr(base))
        else:
            namer.used.update(bn.used)
        bparts.append("  <prov:bundleContent prov:id=%s%s>" % (quoteattr(bid), decl))
        bparts.extend(inner)
        bparts.append("  </prov:bundleContent>")
    decl = ' xmlns:prov="%s" xmlns:%s="%s" xmlns:xsi="%s"' % (PROV, xsdp, XSD_XML, XSI)
    shadow = sites.on("shadowed-root-prefix")
    for p, base in sorted(namer.used.items(), key=lambda kv: str(kv[0])):
        if base in (PROV, XSD):
            continue
        if shadow and p is not None and not bundles:
            # the document element binds the prefix to a decoy; the records re-bind it (nested declarations)
            decl += " xmlns:%s=%s" % (p, quoteattr("http://decoy.example/" + p + "/"))
        else:
            decl += " xmlns%s=%s" % ("" if p is None else ":" + p, quoteattr(base))
    # (the text is handed over as a str: what the declaration says about its encoding is moot)
    enc = "ISO-8859-1" if sites.on("latin1-declaration") else "UTF-8"
    lines = ['<?xml version="1.0" encoding="%s"?>' % enc, "<prov:document%s>" % decl]
    if sites.on("prov-other"):
        lines.append('  <prov:other><x xmlns="http://else/">ignored</x></prov:other>')
    lines.extend(body)
    lines.extend(bparts)
    lines.append("</prov:document>")
    if sites.on("outer-comment"):
        lines.insert(1, "<!-- before the document element -->")
        lines.insert(2, '<?xml-stylesheet type="text/xsl" href="prov.xsl"?>')
        lines.append("<!-- after the document element -->")
    return "\n".join(lines)


def applicable_sites(doc, prefixes, default=None):
    counts = {}
    for d in DEVIATIONS:
        s = Sites([(d, -1)])
        try:
            write(doc, prefixes, s.dialect.items(), default)
        except Exception:
            pass
        s2 = Sites([(d, -1)])
        _count(doc, prefixes, s2, default)
        counts[d] = s2.counters.get(d, 0)
    return counts


def _count(doc, prefixes, sites, default):
    top, bundles = doc
    sites.on("other-xsd-prefix")
    namer = XNamer(prefixes, default if "default-ns" in sites.dialect else None)
    records_xml(top, namer, sites, "xsd", "")
    sites.on("nested-xmlns")
    for buri, recs in bundles:
        records_xml(recs, XNamer(namer.prefixes, namer.default), sites, "xsd", "")
    sites.on("prov-other")
    sites.on("shadowed-root-prefix")
    sites.on("outer-comment")
    sites.on("latin1-declaration")
    sites.on("default-ns")  # a global dialect: one site
