"""Independent PROV-JSON reader, written from the structural rules of the PROV-JSON member
submission (DESIGN appendix A.2).  Imports nothing from `prov`.

read(text) -> (document observation, list of structural-rule violations)
document observation has the shape of provmc.observe.dobs:
    (sorted tuple of records, sorted tuple of (bundle uri, sorted tuple of records))
    record = (type uri, identifier uri | None, sorted tuple of (attribute uri, value obs))
"""
import datetime
import json

PROV = "http://www.w3.org/ns/prov#"
XSD = "http://www.w3.org/2001/XMLSchema#"

KINDS = {
    "entity": "Entity", "activity": "Activity", "agent": "Agent", "wasGeneratedBy": "Generation", "used": "Usage",
    "wasInformedBy": "Communication", "wasStartedBy": "Start", "wasEndedBy": "End",
    "wasInvalidatedBy": "Invalidation", "wasDerivedFrom": "Derivation", "wasAttributedTo": "Attribution",
    "wasAssociatedWith": "Association", "actedOnBehalfOf": "Delegation", "wasInfluencedBy": "Influence",
    "specializationOf": "Specialization", "alternateOf": "Alternate", "hadMember": "Membership",
    "mentionOf": "Mention",
}
REF_ATTRS = {"entity", "activity", "trigger", "informed", "informant", "starter", "ender", "agent", "plan", "delegate",
             "responsible", "generatedEntity", "usedEntity", "generation", "usage", "specificEntity", "generalEntity",
             "alternate1", "alternate2", "bundle", "influencee", "influencer", "collection"}
TIME_ATTRS = {"time", "startTime", "endTime"}


class Unresolvable(Exception):
    pass


def sortkey(x):
    return repr(x)


_DATETIME = __import__("re").compile(r"^-?\d{4,}-\d\d-\d\dT\d\d:\d\d:\d\d(\.\d+)?(Z|[+-]\d\d:\d\d)?$")


def parse_time(text):
    """xsd:dateTime / ISO 8601 extended format, 'T' separator required"""
    if not _DATETIME.match(text):
        raise ValueError("not an xsd:dateTime lexical form: %r" % (text,))
    end_of_day = "T24:00:00" in text
    if end_of_day:
        # xsd:dateTime: 24:00:00 is the first instant of the following day
        text = text.replace("T24:00:00", "T00:00:00")
    dt = datetime.datetime.fromisoformat(text.replace("Z", "+00:00") if text.endswith("Z") else text)
    if end_of_day:
        dt += datetime.timedelta(days=1)
    off = dt.utcoffset()
    return ("dt", dt.isoformat(), None if off is None else off.total_seconds())


def typed_value(lexical, dturi, lang, resolve, qname_types=(PROV + "QUALIFIED_NAME",)):
    """the value-domain convention of DESIGN 3.5; PROV-JSON spells a qualified-name value with
    the type prov:QUALIFIED_NAME, PROV-XML with xsi:type=xsd:QName"""
    if lang is not None:
        return ("lit", str(lexical), PROV + "InternationalizedString", lang)
    if dturi is None:
        return ("lit", str(lexical), None, None)
    if dturi == XSD + "string":
        return ("str", str(lexical))
    if dturi in (XSD + "int", XSD + "long"):
        return ("int", int(str(lexical)))
    if dturi == XSD + "double":
        return ("float", repr(float(str(lexical))))
    if dturi == XSD + "boolean":
        s = str(lexical).lower()
        if s in ("true", "1"):
            return ("bool", True)
        if s in ("false", "0"):
            return ("bool", False)
        return ("lit", str(lexical), dturi, None)
    if dturi == XSD + "dateTime":
        return parse_time(str(lexical))
    if dturi == XSD + "anyURI":
        return ("uri", str(lexical))
    if dturi in qname_types:
        return ("qn", resolve(str(lexical)))
    return ("lit", str(lexical), dturi, None)


class Scope(object):
    def __init__(self, parent=None):
        self.parent = parent
        self.prefixes = {}
        self.default = None
        if parent is None:
            self.prefixes = {"prov": PROV, "xsd": XSD}

    def lookup(self, prefix):
        s = self
        while s is not None:
            if prefix in s.prefixes:
                return s.prefixes[prefix]
            s = s.parent
        return None

    def lookup_default(self):
        s = self
        while s is not None:
            if s.default is not None:
                return s.default
            s = s.parent
        return None

    def resolve(self, name):
        if ":" in name:
            p, local = name.split(":", 1)
            u = self.lookup(p)
            if u is not None:
                return u + local
            raise Unresolvable(name)
        d = self.lookup_default()
        if d is None:
            raise Unresolvable(name)
        return d + name


def read_container(jc, scope, problems, where, allow_bundles):
    records = []
    bundles = []
    if not isinstance(jc, dict):
        problems.append("%s: container is not an object" % where)
        return records, bundles
    pref = jc.get("prefix")
    if pref is not None:
        if not isinstance(pref, dict):
            problems.append("%s: prefix is not an object" % where)
        else:
            for p, u in pref.items():
                if not isinstance(u, str):
                    problems.append("%s: prefix %s is not a string" % (where, p))
                    continue
                if p == "default":
                    scope.default = u
                else:
                    scope.prefixes[p] = u
    for key, val in jc.items():
        if key == "prefix":
            continue
        if key == "bundle":
            if not allow_bundles:
                problems.append("%s: nested bundle" % where)
                continue
            if not isinstance(val, dict):
                problems.append("%s: bundle is not an object" % where)
                continue
            for bid, bc in val.items():
                bscope = Scope(scope)
                # the prefix block is read first: the bundle identifier lives in the bundle's scope
                recs, _ = read_container(bc, bscope, problems, "bundle %s" % bid, False)
                try:
                    buri = bscope.resolve(bid)
                except Unresolvable:
                    problems.append("bundle identifier %s does not resolve" % bid)
                    buri = "?unresolved:" + bid
                bundles.append((buri, recs))
            continue
        if key not in KINDS:
            problems.append("%s: unknown top-level key %r" % (where, key))
            continue
        if not isinstance(val, dict):
            problems.append("%s: %s is not an object" % (where, key))
            continue
        for rid, content in val.items():
            items = content if isinstance(content, list) else [content]
            for item in items:
                if not isinstance(item, dict):
                    problems.append("%s: record %s/%s is not an object" % (where, key, rid))
                    continue
                records.extend(read_record(key, rid, item, scope, problems, where))
    return records, bundles


def read_record(kind, rid, item, scope, problems, where):
    if rid.startswith("_:"):
        ident = None
    else:
        try:
            ident = scope.resolve(rid)
        except Unresolvable:
            problems.append("%s: identifier %s does not resolve" % (where, rid))
            ident = "?unresolved:" + rid
    if ident is None and kind in ("entity", "activity", "agent"):
        problems.append("%s: element %s without identifier" % (where, kind))
    attrs = []
    extra_members = []
    for k, v in item.items():
        try:
            auri = scope.resolve(k)
        except Unresolvable:
            problems.append("%s: attribute name %s does not resolve" % (where, k))
            auri = "?unresolved:" + k
        local = auri[len(PROV):] if auri.startswith(PROV) else None
        if local in REF_ATTRS or local in TIME_ATTRS:
            vals = v if isinstance(v, list) else [v]
            if isinstance(v, list) and not (kind == "hadMember" and local == "entity"):
                if len(v) != 1:
                    problems.append("%s: formal attribute %s has %d values" % (where, k, len(v)))
            out = []
            for one in vals:
                if not isinstance(one, str):
                    problems.append("%s: formal attribute %s is not a string (%r)" % (where, k, one))
                    continue
                if local in REF_ATTRS:
                    try:
                        out.append(("qn", scope.resolve(one)))
                    except Unresolvable:
                        problems.append("%s: %s=%s does not resolve" % (where, k, one))
                else:
                    try:
                        out.append(parse_time(one))
                    except ValueError:
                        problems.append("%s: %s=%s is not an ISO 8601 time" % (where, k, one))
            if out:
                attrs.append((auri, out[0]))
                extra_members.extend((auri, o) for o in out[1:])
        else:
            vals = v if isinstance(v, list) else [v]
            for one in vals:
                attrs.append((auri, read_value(one, scope, problems, where)))
    rec = (PROV + KINDS[kind], ident, tuple(sorted(set(attrs), key=sortkey)))
    recs = [rec]
    if extra_members:
        coll = [a for a in attrs if a[0] == PROV + "collection"]
        for a, o in extra_members:
            recs.append((PROV + "Membership", None, tuple(sorted(set(coll + [(a, o)]), key=sortkey))))
    return recs


def read_value(one, scope, problems, where):
    if isinstance(one, bool):
        return ("bool", one)
    if isinstance(one, int):
        return ("int", one)
    if isinstance(one, float):
        return ("float", repr(one))
    if isinstance(one, str):
        return ("str", one)
    if isinstance(one, dict):
        if "$" not in one:
            problems.append("%s: literal object without $" % where)
            return ("lit", "", None, None)
        extra = set(one) - {"$", "type", "lang"}
        if extra:
            problems.append("%s: literal object with unknown keys %s" % (where, sorted(extra)))
        lang = one.get("lang")
        if lang == "" and "type" not in one:
            # an empty language tag is no language tag (as xml:lang="")
            return ("str", str(one["$"]))
        dturi = None
        if "type" in one:
            if not isinstance(one["type"], str):
                problems.append("%s: literal type is not a string" % where)
            else:
                try:
                    dturi = scope.resolve(one["type"])
                except Unresolvable:
                    problems.append("%s: datatype %s does not resolve" % (where, one["type"]))
                    dturi = "?unresolved:" + one["type"]
        if lang is None and dturi is None:
            problems.append("%s: literal object with neither type nor lang" % where)

        def res(name):
            try:
                return scope.resolve(name)
            except Unresolvable:
                problems.append("%s: qualified-name value %s does not resolve" % (where, name))
                return "?unresolved:" + name
        try:
            return typed_value(one["$"], dturi, lang, res)
        except ValueError:
            problems.append("%s: lexical form %r invalid for %s" % (where, one["$"], dturi))
            return ("lit", str(one["$"]), dturi, None)
    problems.append("%s: value of unsupported JSON kind %r" % (where, one))
    return ("other", repr(one))


def read(text):
    problems = []
    try:
        jc = json.loads(text)
    except ValueError as e:
        return None, ["not JSON: %s" % e]
    scope = Scope()
    records, bundles = read_container(jc, scope, problems, "document", True)
    merged = {}
    for u, rs in bundles:
        merged.setdefault(u, []).extend(rs)
    doc = (tuple(sorted(records, key=sortkey)),
           tuple(sorted((u, tuple(sorted(rs, key=sortkey))) for u, rs in merged.items())))
    return doc, problems
