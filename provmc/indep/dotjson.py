"""Graphviz as the independent DOT reader: `dot -Tdot_json` over batches of graphs.

parse_many(texts) -> list of (graph dict | None, error text) in input order.
A graph dict: {"clusters": [{"url", "label", "nodes": [names]}], "nodes": {name: attrs}, "edges": [(tail, head, attrs)]}
"""
import json
import subprocess

STRIP = ("_draw_", "_ldraw_", "_hdraw_", "_tdraw_", "_hldraw_", "_tldraw_", "pos", "bb", "lp", "width", "height", "rects")


def _run(data):
    p = subprocess.run(["dot", "-Tdot_json"], input=data.encode("utf-8"), capture_output=True)
    return p.returncode, p.stdout.decode("utf-8", "replace"), p.stderr.decode("utf-8", "replace")


def _split_json(stream):
    dec = json.JSONDecoder()
    out = []
    i, n = 0, len(stream)
    while i < n:
        while i < n and stream[i] in " \r\n\t":
            i += 1
        if i >= n:
            break
        obj, j = dec.raw_decode(stream, i)
        out.append(obj)
        i = j
    return out


def _convert(j):
    objs = j.get("objects", [])
    by_id = {}
    clusters = []
    nodes = {}
    for idx, o in enumerate(objs):
        gid = o.get("_gvid", idx)
        by_id[gid] = o
    for gid, o in by_id.items():
        if "nodes" in o or "subgraphs" in o or o.get("name", "").startswith("cluster"):
            clusters.append({"name": o.get("name"), "url": o.get("URL"), "label": o.get("label"),
                             "nodes": [by_id[k]["name"] for k in o.get("nodes", []) if k in by_id]})
        else:
            nodes[o["name"]] = {k: v for k, v in o.items() if k not in STRIP and k != "_gvid"}
    edges = []
    for e in j.get("edges", []):
        edges.append((by_id[e["tail"]]["name"], by_id[e["head"]]["name"],
                      {k: v for k, v in e.items() if k not in STRIP and k not in ("tail", "head", "_gvid")}))
    return {"clusters": clusters, "nodes": nodes, "edges": edges,
            "graph": {k: v for k, v in j.items() if k not in ("objects", "edges") and k not in STRIP}}


def parse_many(texts):
    """batch first; on any trouble fall back to one process per graph for this batch"""
    if not texts:
        return []
    rc, out, err = _run("\n".join(texts))
    if rc == 0 and not err.strip():
        try:
            objs = _split_json(out)
        except ValueError:
            objs = None
        if objs is not None and len(objs) == len(texts):
            return [(_convert(o), None) for o in objs]
    res = []
    for t in texts:
        rc, out, err = _run(t)
        if rc != 0 or "rror" in err:
            res.append((None, (err.strip() or "dot exit %d" % rc)[:400]))
            continue
        try:
            objs = _split_json(out)
        except ValueError as e:
            res.append((None, "unparsable dot_json: %s" % e))
            continue
        if len(objs) != 1:
            res.append((None, "dot produced %d graphs for one input" % len(objs)))
            continue
        res.append((_convert(objs[0]), err.strip()[:200] or None if False else None))
    return res
