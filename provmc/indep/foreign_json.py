"""Foreign PROV-JSON writer: reference document -> spec-valid PROV-JSON text in a chosen
*dialect* (a set of deviations from this writer's base spelling, each optionally limited to
one site).  Written from the PROV-JSON structural rules; imports nothing from `prov`.

doc shape: (records, ((bundle uri, records), ...)); record = (type uri, id uri|None, ((attr uri, value obs), ...))
"""
import json
from collections import OrderedDict

from .json_reader import PROV, XSD, KINDS, REF_ATTRS, TIME_ATTRS

TYPE_TO_KEY = {PROV + v: k for k, v in KINDS.items()}

DEVIATIONS = [
    "wrap-value", "wrap-formal", "record-array", "multi-member", "str-typed", "int-native", "int-string-lexical",
    "int-as-long", "float-native", "float-string-lexical", "bool-typed", "bool-typed-01", "bool-json-in-$",
    "lang-with-type", "time-Z", "prefix-in-bundle-too", "prefix-bundle-only", "reverse-keys", "anon-ids-named",
    "default-ns", "members-in-one-record-array", "typed-literal-number-$", "str-typed-number-$", "float-typed-int-$",
    "empty-containers", "empty-lang", "time-end-of-day", "two-defaults",
]


class Sites(object):
    """deviation d applies at site number k of its kind (or everywhere if k is None)"""

    def __init__(self, dialect):
        self.dialect = dict(dialect)  # name -> site index or None
        self.counters = {}

    def on(self, name):
        if name not in self.dialect:
            return False
        k = self.counters.get(name, 0)
        self.counters[name] = k + 1
        want = self.dialect[name]
        return want is None or want == k


class Namer(object):
    def __init__(self, prefixes, default=None):
        self.prefixes = dict(prefixes)  # uri -> prefix
        self.prefixes[PROV] = "prov"
        self.prefixes[XSD] = "xsd"
        self.default = default  # uri spelt without prefix, or None
        self.used = set()

    def split(self, uri):
        best = None
        for base in list(self.prefixes) + ([self.default] if self.default else []):
            if uri.startswith(base) and len(uri) > len(base) and (best is None or len(base) > len(best)):
                best = base
        if best is None:
            for sep in ("#", "/"):
                if sep in uri and uri.rindex(sep) + 1 < len(uri):
                    best = uri[: uri.rindex(sep) + 1]
                    break
            self.prefixes[best] = "n%d" % len(self.prefixes)
        return best, uri[len(best):]

    def name(self, uri):
        base, local = self.split(uri)
        if base == self.default and ":" not in local:
            self.used.add(None)
            return local
        if base not in self.prefixes:
            self.prefixes[base] = "n%d" % len(self.prefixes)
        self.used.add(base)
        return "%s:%s" % (self.prefixes[base], local)


def spell_value(v, namer, sites):
    k = v[0]
    if k == "str":
        if _int_like(v[1]) and sites.on("str-typed-number-$"):
            # xsd:string whose "$" is spelt as a JSON number: still the string
            return OrderedDict([("$", int(v[1])), ("type", "xsd:string")])
        if sites.on("empty-lang"):
            return OrderedDict([("$", v[1]), ("lang", "")])
        if sites.on("str-typed"):
            return OrderedDict([("$", v[1]), ("type", "xsd:string")])
        return v[1]
    if k == "int":
        if sites.on("int-native"):
            return v[1]
        lex = str(v[1]) if sites.on("int-string-lexical") else v[1]
        return OrderedDict([("$", lex), ("type", "xsd:long" if sites.on("int-as-long") else "xsd:int")])
    if k == "float":
        f = float(v[1])
        if f == int(f) and abs(f) < 2 ** 53 and sites.on("float-typed-int-$"):
            # an xsd:double whose "$" is the JSON integer 1: still the double 1.0
            return OrderedDict([("$", int(f)), ("type", "xsd:double")])
        if sites.on("float-native"):
            return f
        return OrderedDict([("$", v[1] if sites.on("float-string-lexical") else f), ("type", "xsd:double")])
    if k == "bool":
        if sites.on("bool-typed"):
            return OrderedDict([("$", "true" if v[1] else "false"), ("type", "xsd:boolean")])
        if sites.on("bool-typed-01"):
            return OrderedDict([("$", "1" if v[1] else "0"), ("type", "xsd:boolean")])
        if sites.on("bool-json-in-$"):
            return OrderedDict([("$", v[1]), ("type", "xsd:boolean")])
        return v[1]
    if k == "dt":
        iso = v[1]
        if iso.endswith("+00:00") and sites.on("time-Z"):
            iso = iso[:-6] + "Z"
        return OrderedDict([("$", iso), ("type", "xsd:dateTime")])
    if k == "uri":
        return OrderedDict([("$", v[1]), ("type", "xsd:anyURI")])
    if k == "qn":
        return OrderedDict([("$", namer.name(v[1])), ("type", "prov:QUALIFIED_NAME")])
    if k == "lit":
        _, lex, dt, lang = v
        if lang is not None:
            o = OrderedDict([("$", lex), ("lang", lang)])
            if sites.on("lang-with-type"):
                o["type"] = "prov:InternationalizedString"
            return o
        if dt is not None and dt.startswith(XSD) and _int_like(lex) and sites.on("typed-literal-number-$"):
            # a literal of another XML-Schema datatype with a JSON number as "$": the datatype stays
            return OrderedDict([("$", int(lex)), ("type", namer.name(dt))])
        return OrderedDict([("$", lex), ("type", namer.name(dt))])
    raise ValueError(v)


def _int_like(text):
    import re
    return bool(re.match(r"^(0|-?[1-9][0-9]{0,15})$", text))


def end_of_day(iso):
    """the xsd:dateTime spelling <previous day>T24:00:00 of midnight"""
    import datetime
    day = datetime.date.fromisoformat(iso[:10]) - datetime.timedelta(days=1)
    return day.isoformat() + "T24:00:00" + iso[19:]


def container(records, namer, sites, anon):
    out = OrderedDict()
    # group memberships with the same collection for the multi-member spelling
    recs = list(records)
    merged = []
    if "members-in-one-record-array" in sites.dialect and sites.on("members-in-one-record-array"):
        # all anonymous memberships of the container as ONE record array under one blank identifier:
        # an element per collection, listing its members (several -> array), multi-member elements first
        groups = OrderedDict()
        rest = []
        for r in recs:
            t, i, attrs = r
            d = dict(attrs)
            if t == PROV + "Membership" and i is None and set(d) == {PROV + "collection", PROV + "entity"}:
                groups.setdefault(d[PROV + "collection"], []).append(d[PROV + "entity"])
            else:
                rest.append(r)
        recs = rest
        if groups:
            elements = []
            for coll, members in sorted(groups.items(), key=lambda kv: -len(kv[1])):
                ms = [namer.name(m[1]) for m in members]
                elements.append(OrderedDict([("prov:collection", namer.name(coll[1])),
                                             ("prov:entity", ms if len(ms) > 1 else ms[0])]))
            anon[0] += 1
            out.setdefault("hadMember", OrderedDict())["_:m%d" % anon[0]] = elements if len(elements) > 1 else elements[0]
    elif "multi-member" in sites.dialect:
        groups = OrderedDict()
        rest = []
        for r in recs:
            t, i, attrs = r
            d = dict(attrs)
            if t == PROV + "Membership" and i is None and set(d) == {PROV + "collection", PROV + "entity"}:
                groups.setdefault(d[PROV + "collection"], []).append(d[PROV + "entity"])
            else:
                rest.append(r)
        recs = rest
        for coll, members in groups.items():
            if len(members) > 1 and sites.on("multi-member"):
                merged.append((coll, members))
            else:
                for m in members:
                    recs.append((PROV + "Membership", None, ((PROV + "collection", coll), (PROV + "entity", m))))
    for t, i, attrs in recs:
        key = TYPE_TO_KEY[t]
        if i is None:
            anon[0] += 1
            rid = ("_:rel%d" if "anon-ids-named" in sites.dialect else "_:id%d") % anon[0]
        else:
            rid = namer.name(i)
        body = OrderedDict()
        byattr = OrderedDict()
        for a, v in attrs:
            byattr.setdefault(a, []).append(v)
        for a, vs in byattr.items():
            local = a[len(PROV):] if a.startswith(PROV) else None
            if local in REF_ATTRS or local in TIME_ATTRS:
                v = vs[0]
                s = namer.name(v[1]) if v[0] == "qn" else (v[1][:-6] + "Z" if v[1].endswith("+00:00") and sites.on("time-Z") else v[1])
                if v[0] != "qn" and "T00:00:00" in s and "." not in s and sites.on("time-end-of-day"):
                    s = end_of_day(s)
                body["prov:" + local] = [s] if sites.on("wrap-formal") else s
            else:
                sp = [spell_value(v, namer, sites) for v in vs]
                if len(sp) == 1 and not sites.on("wrap-value"):
                    body[namer.name(a)] = sp[0]
                else:
                    body[namer.name(a)] = sp
        if sites.on("reverse-keys"):
            body = OrderedDict(reversed(list(body.items())))
        slot = out.setdefault(key, OrderedDict())
        if rid in slot:
            if not isinstance(slot[rid], list):
                slot[rid] = [slot[rid]]
            slot[rid].append(body)
        else:
            slot[rid] = [body] if sites.on("record-array") else body
    for coll, members in merged:
        anon[0] += 1
        slot = out.setdefault("hadMember", OrderedDict())
        slot["_:id%d" % anon[0]] = OrderedDict([("prov:collection", namer.name(coll[1])),
                                                ("prov:entity", [namer.name(m[1]) for m in members])])
    return out


def write(doc, prefixes, dialect=(), default=None, indent=None):
    """prefixes: uri -> prefix; dialect: iterable of (deviation name, site index | None)"""
    sites = Sites(dialect)
    top, bundles = doc
    if "default-ns" not in sites.dialect:
        default = None
    # the document declares one default namespace (http://b/), every bundle its own, different one (`default`)
    two = bool(bundles) and sites.on("two-defaults")
    bundle_default = default
    if two:
        default, bundle_default = "http://b/", "http://a/"
    namer = Namer(prefixes, default)
    anon = [0]
    out = container(top, namer, sites, anon)
    bmap = OrderedDict()
    bundle_only = sites.on("prefix-bundle-only")
    in_bundle_too = sites.on("prefix-in-bundle-too")
    doc_used = set(namer.used)
    for buri, recs in bundles:
        bn = Namer(namer.prefixes, bundle_default if two else namer.default)
        body = container(recs, bn, sites, anon)
        bid = bn.name(buri)
        namer.prefixes.update(bn.prefixes)
        decl = OrderedDict()
        if two and None in bn.used:
            decl["default"] = bn.default
            bn.used.discard(None)
        if in_bundle_too or bundle_only:
            for base in bn.used:
                if base is None:
                    decl["default"] = bn.default
                elif base not in (PROV, XSD) and (in_bundle_too or base not in doc_used):
                    decl[bn.prefixes[base]] = base
        if decl:
            b2 = OrderedDict([("prefix", decl)])
            b2.update(body)
            body = b2
        if not bundle_only:
            namer.used |= bn.used
        bmap[bid] = body
    decl = OrderedDict()
    for base in namer.used:
        if base is None:
            decl["default"] = namer.default
        elif base not in (PROV, XSD):
            decl[namer.prefixes[base]] = base
    res = OrderedDict()
    if decl:
        res["prefix"] = decl
    res.update(out)
    if bmap:
        res["bundle"] = bmap
    if sites.on("empty-containers"):
        # every record kind (and the prefix block) present although empty, at document and bundle level
        for c in [res] + list(bmap.values()):
            c.setdefault("prefix", OrderedDict())
            for k in KINDS:
                c.setdefault(k, OrderedDict())
        res.setdefault("bundle", OrderedDict())
    if sites.on("reverse-keys"):
        res = OrderedDict(reversed(list(res.items())))
    return json.dumps(res, indent=indent, ensure_ascii=False)


def applicable_sites(doc, prefixes, default=None):
    """for each deviation, how many sites it has in this document (0 = not applicable)"""
    counts = {}
    for d in DEVIATIONS:
        s = Sites([(d, -1)])
        write_with(doc, prefixes, s, default)
        counts[d] = s.counters.get(d, 0)
    return counts


def write_with(doc, prefixes, sites, default=None):
    top, bundles = doc
    namer = Namer(prefixes, default if "default-ns" in sites.dialect else None)
    anon = [0]
    container(top, namer, sites, anon)
    sites.on("prefix-bundle-only")
    sites.on("prefix-in-bundle-too")
    for buri, recs in bundles:
        container(recs, Namer(namer.prefixes, namer.default), sites, anon)
    sites.on("empty-containers")
    if bundles:
        sites.on("two-defaults")
    sites.on("default-ns")  # a global dialect: one site
    sites.on("anon-ids-named")  # likewise
    sites.on("reverse-keys")
