"""Independent PROV-XML reader written from the structural rules of the PROV-XML note (DESIGN
appendix A.3), on xml.etree.ElementTree.iterparse with an explicit namespace-scope stack
(QName-valued content - prov:id, prov:ref, xsi:type, xsd:QName text - needs the in-scope
prefix bindings, which ElementTree discards).  Imports nothing from `prov` or lxml.

read(text) -> (document observation as in json_reader, list of structural-rule violations)
"""
import io
import xml.etree.ElementTree as ET

from .json_reader import PROV, XSD, REF_ATTRS, TIME_ATTRS, parse_time, typed_value, sortkey

XSD_XML = "http://www.w3.org/2001/XMLSchema"
XSI = "http://www.w3.org/2001/XMLSchema-instance"
XMLNS = "http://www.w3.org/XML/1998/namespace"

ELEMENTS = {
    "entity": ("Entity", None), "activity": ("Activity", None), "agent": ("Agent", None),
    "wasGeneratedBy": ("Generation", None), "used": ("Usage", None), "wasInformedBy": ("Communication", None),
    "wasStartedBy": ("Start", None), "wasEndedBy": ("End", None), "wasInvalidatedBy": ("Invalidation", None),
    "wasDerivedFrom": ("Derivation", None), "wasAttributedTo": ("Attribution", None),
    "wasAssociatedWith": ("Association", None), "actedOnBehalfOf": ("Delegation", None),
    "wasInfluencedBy": ("Influence", None), "specializationOf": ("Specialization", None),
    "alternateOf": ("Alternate", None), "hadMember": ("Membership", None), "mentionOf": ("Mention", None),
    # subtype elements: base record + the additional prov:type
    "person": ("Agent", "Person"), "organization": ("Agent", "Organization"),
    "softwareAgent": ("Agent", "SoftwareAgent"), "plan": ("Entity", "Plan"), "collection": ("Entity", "Collection"),
    "emptyCollection": ("Entity", "EmptyCollection"), "bundle": ("Entity", "Bundle"),
    "wasRevisionOf": ("Derivation", "Revision"), "wasQuotedFrom": ("Derivation", "Quotation"),
    "hadPrimarySource": ("Derivation", "PrimarySource"),
}
FORMALS = {
    "Entity": (), "Agent": (), "Activity": ("startTime", "endTime"),
    "Generation": ("entity", "activity", "time"), "Usage": ("activity", "entity", "time"),
    "Communication": ("informed", "informant"), "Start": ("activity", "trigger", "starter", "time"),
    "End": ("activity", "trigger", "ender", "time"), "Invalidation": ("entity", "activity", "time"),
    "Derivation": ("generatedEntity", "usedEntity", "activity", "generation", "usage"),
    "Attribution": ("entity", "agent"), "Association": ("activity", "agent", "plan"),
    "Delegation": ("delegate", "responsible", "activity"), "Influence": ("influencee", "influencer"),
    "Specialization": ("specificEntity", "generalEntity"), "Alternate": ("alternate1", "alternate2"),
    "Mention": ("specificEntity", "generalEntity", "bundle"), "Membership": ("collection", "entity"),
}
COMMON_ORDER = ("label", "location", "role", "type", "value")


def norm_ns(uri):
    return XSD if uri == XSD_XML else uri


class Node(object):
    __slots__ = ("tag", "attrib", "text", "children", "nsmap")

    def __init__(self, tag, attrib, nsmap):
        self.tag = tag
        self.attrib = attrib
        self.text = None
        self.children = []
        self.nsmap = nsmap


def parse_tree(text):
    """element tree whose nodes keep the namespace bindings in scope at their start tag"""
    # text that is already decoded is parsed as such (an encoding declaration inside it is moot)
    src = io.StringIO(text) if isinstance(text, str) else io.BytesIO(text)
    stack = []
    scopes = [{"xml": XMLNS}]
    pending = []
    root = None
    for event, obj in ET.iterparse(src, events=("start-ns", "end-ns", "start", "end")):
        if event == "start-ns":
            pending.append(obj)
        elif event == "start":
            cur = dict(scopes[-1])
            for p, u in pending:
                cur[p or None] = u
            scopes.append(cur)
            pending = []
            n = Node(obj.tag, dict(obj.attrib), cur)
            if stack:
                stack[-1].children.append(n)
            else:
                root = n
            stack.append(n)
        elif event == "end":
            n = stack.pop()
            n.text = obj.text
            scopes.pop()
    return root


def split_tag(tag):
    if tag.startswith("{"):
        ns, local = tag[1:].split("}", 1)
        return ns, local
    return None, tag


def resolve_qname(node, text, problems, what):
    text = text.strip()
    if ":" in text:
        p, local = text.split(":", 1)
        if p in node.nsmap:
            return norm_ns(node.nsmap[p]) + local
        problems.append("%s: prefix of %r is not in scope" % (what, text))
        return "?unresolved:" + text
    d = node.nsmap.get(None)
    if d is None:
        problems.append("%s: unprefixed %r without a default namespace" % (what, text))
        return "?unresolved:" + text
    return norm_ns(d) + text


def read_records(parent, problems, where, allow_bundles):
    records, bundles = [], []
    for el in parent.children:
        ns, local = split_tag(el.tag)
        if ns != PROV:
            problems.append("%s: non-PROV element %s" % (where, el.tag))
            continue
        if local == "other":
            continue
        if local == "bundleContent":
            if not allow_bundles:
                problems.append("%s: nested bundleContent" % where)
                continue
            bid = el.attrib.get("{%s}id" % PROV)
            if bid is None:
                problems.append("bundleContent without prov:id")
                buri = "?noid"
            else:
                buri = resolve_qname(el, bid, problems, "bundle id")
            recs, _ = read_records(el, problems, "bundle %s" % bid, False)
            bundles.append((buri, recs))
            continue
        if local not in ELEMENTS:
            problems.append("%s: unknown record element prov:%s" % (where, local))
            continue
        base, subtype = ELEMENTS[local]
        rid = el.attrib.get("{%s}id" % PROV)
        ident = None if rid is None else resolve_qname(el, rid, problems, "prov:id")
        for k in el.attrib:
            if k not in ("{%s}id" % PROV, "{%s}type" % XSI):
                problems.append("%s: unexpected attribute %s on record element" % (where, k))
        if ident is None and base in ("Entity", "Agent", "Activity"):
            problems.append("%s: element record without prov:id" % where)
        attrs = []
        if subtype is not None:
            attrs.append((PROV + "type", ("qn", PROV + subtype)))
        xt = el.attrib.get("{%s}type" % XSI)
        if xt is not None:
            attrs.append((PROV + "type", ("qn", resolve_qname(el, xt, problems, "xsi:type on record"))))
        ranks = []
        formals = FORMALS[base]
        for ch in el.children:
            cns, clocal = split_tag(ch.tag)
            if cns is None:
                problems.append("%s: attribute element %s in no namespace" % (where, clocal))
                cns = ""
            auri = norm_ns(cns) + clocal
            if cns == PROV and clocal in formals:
                ranks.append(formals.index(clocal))
            elif cns == PROV and clocal in COMMON_ORDER:
                ranks.append(len(formals) + COMMON_ORDER.index(clocal))
            else:
                ranks.append(len(formals) + len(COMMON_ORDER))
            attrs.append((auri, read_value(ch, cns, clocal, problems, where)))
            if ch.children:
                problems.append("%s: attribute element %s has element content" % (where, clocal))
        if ranks != sorted(ranks):
            problems.append("%s: children of prov:%s are not in schema order (%s)" % (
                where, local, [split_tag(c.tag)[1] for c in el.children]))
        members = [av for av in attrs if av[0] == PROV + "entity"]
        if base == "Membership" and len(members) > 1:
            # hadMember listing several entities = one membership per member (PROV-DM has binary membership)
            others = [av for av in attrs if av[0] != PROV + "entity"]
            for k, mv in enumerate(members):
                records.append((PROV + base, ident if k == 0 else None, tuple(sorted(set(others + [mv]), key=sortkey))))
            continue
        records.append((PROV + base, ident, tuple(sorted(set(attrs), key=sortkey))))
    return records, bundles


def read_value(ch, cns, clocal, problems, where):
    ref = ch.attrib.get("{%s}ref" % PROV)
    xt = ch.attrib.get("{%s}type" % XSI)
    lang = ch.attrib.get("{%s}lang" % XMLNS)
    if lang == "":
        lang = None  # xml:lang="" declares that there is no language information
    for k in ch.attrib:
        if k not in ("{%s}ref" % PROV, "{%s}type" % XSI, "{%s}lang" % XMLNS):
            problems.append("%s: unexpected attribute %s on %s" % (where, k, clocal))
    text = ch.text if ch.text is not None else ""
    if cns == PROV and clocal in REF_ATTRS:
        if ref is None:
            problems.append("%s: reference child prov:%s without prov:ref" % (where, clocal))
            return ("str", text)
        if text.strip():
            problems.append("%s: reference child prov:%s has text" % (where, clocal))
        return ("qn", resolve_qname(ch, ref, problems, "prov:ref"))
    if ref is not None:
        problems.append("%s: prov:ref on a non-reference child %s" % (where, clocal))
    if cns == PROV and clocal in TIME_ATTRS:
        try:
            return parse_time(text.strip())
        except ValueError:
            problems.append("%s: prov:%s=%r is not a dateTime" % (where, clocal, text))
            return ("str", text)
    if lang is not None:
        if xt is not None and resolve_qname(ch, xt, problems, "xsi:type") != PROV + "InternationalizedString":
            problems.append("%s: %s carries xml:lang together with the conflicting xsi:type %s" % (where, clocal, xt))
        return ("lit", text, PROV + "InternationalizedString", lang)
    if xt is not None:
        dturi = resolve_qname(ch, xt, problems, "xsi:type")

        def res(name):
            # whitespace around an xsd:QName is not part of the name (whitespace facet: collapse)
            return resolve_qname(ch, name.strip(), problems, "xsd:QName value")
        try:
            return typed_value(text, dturi, None, res, qname_types=(XSD + "QName",))
        except ValueError:
            problems.append("%s: lexical form %r invalid for %s" % (where, text, dturi))
            return ("lit", text, dturi, None)
    return ("str", text)


def read(text):
    problems = []
    try:
        root = parse_tree(text)
    except ET.ParseError as e:
        return None, ["not well-formed XML: %s" % e]
    ns, local = split_tag(root.tag)
    if ns != PROV or local != "document":
        problems.append("root element is %s, not prov:document" % root.tag)
    records, bundles = read_records(root, problems, "document", True)
    merged = {}
    for u, rs in bundles:
        merged.setdefault(u, []).extend(rs)
    doc = (tuple(sorted(records, key=sortkey)),
           tuple(sorted((u, tuple(sorted(rs, key=sortkey))) for u, rs in merged.items())))
    return doc, problems
