"""Alphabets (op lists) shared by the history explorations.  Simplest ops first so that
BFS finds shortest counter-examples first."""

S = lambda p: ("s", p)
Q = lambda p: ("q", p)
BARE = ("b",)
URI = ("u",)


def doc_history_alphabet(tier, with_values=None, rich=False):
    """the ~40-letter alphabet of DESIGN C01(b): namespace interleavings on a document
    and one bundle, elements in every spelling, relations, attributes"""
    ops = []
    # declarations
    ops += [("ns", "D", "ex", "A"), ("ns", "D", "ex", "B"), ("ns", "D", "q", "A")]
    ops += [("def", "D", "A"), ("def", "D", "C")]
    ops += [("bun", "B1", ("A", "b1", S("ex"))), ("bun", "B1", ("A", "b1", BARE)),
            ("bun", "B1", ("C", "b1", Q("bn"))),
            # a bundle built on its own and attached with add_bundle(): its identifier's namespace is
            # unknown to the document
            ("addb", "B1", ("C", "b1", Q("zz"))),
            # ... and one whose identifier uses the document's prefix for another URI
            ("addb", "B1", ("B", "b1", Q("ex")))]
    ops += [("ns", "B1", "ex", "A"), ("ns", "B1", "ex", "B"), ("ns", "B1", "q", "B")]
    ops += [("def", "B1", "B"), ("def", "B1", "A")]
    # elements, every spelling, both scopes
    for scope in ("D", "B1"):
        ops += [
            ("el", scope, "entity", ("A", "x", S("ex"))),
            ("el", scope, "entity", ("B", "x", S("ex"))),
            ("el", scope, "entity", ("A", "x", BARE)),
            ("el", scope, "entity", ("B", "x", BARE)),
            ("el", scope, "entity", ("A", "x", URI)),
            ("el", scope, "entity", ("A", "x", Q("ex"))),
            ("el", scope, "entity", ("B", "x", Q("ex"))),
            ("el", scope, "entity", ("A", "x", Q(""))),
            ("el", scope, "entity", ("B", "x", Q(""))),
        ]
    ops += [("el", "D", "agent", ("A", "x", S("ex"))), ("el", "D", "activity", ("A", "a", S("ex")), ("t1", None))]
    # relations: anonymous / identified, with / without the optional activity
    for scope in ("D", "B1"):
        ops += [
            ("rel", scope, "generation", None, (("A", "x", S("ex")), None, None)),
            ("rel", scope, "generation", ("A", "g", S("ex")), (("A", "x", S("ex")), ("A", "a", S("ex")), "t3")),
            ("rel", scope, "generation", ("B", "g", Q("ex")), (("B", "x", Q("ex")), None, None)),
        ]
    # attributes on the record created last
    vals = with_values or ["s_a", "i_2", "b_T", "q_exB", "l_lang", "l_foreign", "l_exdt"]
    for an in (("A", "k", S("ex")), ("A", "k", BARE), ("B", "k", Q("ex"))):
        for v in vals:
            ops.append(("at", an, v))
    # the two in-place editors that do not go through add_attributes
    ops += [("asrt", "q_prov"), ("settime", "start", "t2"), ("settime", "end", "t1")]
    # asserted types in a namespace the container has not seen / whose prefix it binds to another URI
    ops += [("asrt", "q_fooC"), ("asrt", "q_exB")]
    return ops
