"""sub-process entry: python -m provmc.run <PROP> <tier> <seed> <out.json> [--replay file]"""
import importlib
import json
import sys


def main():
    prop, tier, seed, outp = sys.argv[1], sys.argv[2], int(sys.argv[3]), sys.argv[4]
    mod = importlib.import_module("provmc.props.%s" % prop.lower())
    if "--replay" in sys.argv:
        path = sys.argv[sys.argv.index("--replay") + 1]
        with open(path) as f:
            item = json.load(f)
        res = mod.replay(item, tier, seed)
    else:
        res = mod.main(tier, seed)
    with open(outp, "w") as f:
        json.dump(res, f, default=str)


if __name__ == "__main__":
    main()
