"""Level-synchronous, exhaustive, explicit-state BFS over histories of real API calls
(DESIGN 3.1).  16 long-lived worker processes; states are rebuilt by replay, never copied.
"""
import collections
import hashlib
import importlib
import multiprocessing
import os
import time
import traceback

from . import machine

NPROC = int(os.environ.get("PROVMC_PROCS", "16"))

_SPEC = None


def _init(modname, tier, params):
    global _SPEC
    mod = importlib.import_module(modname)
    _SPEC = mod.make_spec(tier, params)


class Out(object):
    """what one worker chunk reports"""

    def __init__(self):
        self.viol = {}  # signature -> [count, example]
        self.filters = collections.Counter()
        self.outcomes = collections.Counter()
        self.transitions = 0
        self.evaluations = 0
        self.conform = 0
        self.nontrivial = 0
        self.samples = []
        self.notes = collections.Counter()
        self.applied = collections.Counter()  # letter index -> number of successful applications (vacuity audit)

    def violation(self, clause, sig, detail, hist=None, extra=None):
        key = "%s|%s" % (clause, sig)
        cur = self.viol.get(key)
        if cur is None:
            self.viol[key] = [1, {"clause": clause, "sig": sig, "detail": detail, "hist": hist, "extra": extra}]
        else:
            cur[0] += 1
            if hist is not None and cur[1]["hist"] is not None and len(hist) < len(cur[1]["hist"]):
                cur[1] = {"clause": clause, "sig": sig, "detail": detail, "hist": hist, "extra": extra}

    def merge(self, other):
        for k, (n, ex) in other.viol.items():
            cur = self.viol.get(k)
            if cur is None:
                self.viol[k] = [n, ex]
            else:
                cur[0] += n
                if ex["hist"] is not None and cur[1]["hist"] is not None and len(ex["hist"]) < len(cur[1]["hist"]):
                    cur[1] = ex
        self.filters.update(other.filters)
        self.outcomes.update(other.outcomes)
        self.notes.update(other.notes)
        self.applied.update(getattr(other, "applied", {}))
        self.transitions += other.transitions
        self.evaluations += other.evaluations
        self.conform += other.conform
        self.nontrivial += other.nontrivial
        if len(self.samples) < 3:
            self.samples.extend(other.samples[: 3 - len(self.samples)])


class CaseTimeout(Exception):
    """one case (a history with all its successors, or one sweep item) ran longer than CASE_LIMIT_S"""


CASE_LIMIT_S = int(os.environ.get("PROVMC_CASE_LIMIT_S", "120"))


def _on_alarm(signum, frame):
    raise CaseTimeout()


def _arm():
    import signal
    signal.signal(signal.SIGALRM, _on_alarm)
    signal.alarm(CASE_LIMIT_S)


def _disarm():
    import signal
    signal.alarm(0)


def digest(key):
    return hashlib.blake2b(key.encode("utf-8", "surrogatepass"), digest_size=16).digest()


def _work(args):
    hists, expand = args
    spec = _SPEC
    out = Out()
    succ = {}
    try:
        for hist in hists:
            _arm()
            try:
                _one(spec, hist, expand, out, succ)
            except CaseTimeout:
                out.violation("does-not-terminate", "case-limit-%ss" % CASE_LIMIT_S,
                              {"note": "processing this history and its successors exceeded the per-case time limit"},
                              hist)
            finally:
                _disarm()
    except Exception:
        return ("error", traceback.format_exc())
    return ("ok", list(succ.items()), out)


def _one(spec, hist, expand, out, succ):
    alpha = spec.alphabet
    st = spec.build(hist)
    # state oracles on this (new) state
    spec.check_state(st, out)
    out.evaluations += 1
    if not expand:
        return
    dirty = spec.mutating_checks
    for i, op in enumerate(alpha):
        if dirty:
            st = spec.build(hist)
            dirty = False
        h2 = hist + (i,)
        try:
            pre = spec.pre(st, op)
            spec.apply(st, op)
        except machine.NotEnabled as e:
            out.filters[e.args[0]] += 1
            continue
        except machine.NonConformance as e:
            dirty = True
            out.transitions += 1
            spec.nonconformance(st, h2, op, e, out)
            continue
        except CaseTimeout:
            raise
        except Exception as e:  # the library refused or crashed
            dirty = True
            out.transitions += 1
            spec.op_exception(st, h2, op, e, out)
            continue
        dirty = True
        st.hist = h2
        out.transitions += 1
        out.conform += 1
        out.applied[i] += 1
        spec.check_transition(pre, op, st, out)
        d = digest(spec.canon(st))
        if d not in succ:
            succ[d] = h2


def bfs(modname, tier, params, depth, budget_s=None, max_states=None, dedup=True, collect=None):
    """returns (Out, stats dict)"""
    t0 = time.time()
    ctx = multiprocessing.get_context("fork")
    pool = ctx.Pool(NPROC, initializer=_init, initargs=(modname, tier, params))
    total = Out()
    seen = {}
    frontier = [()]
    seen[b"root"] = ()
    levels = []
    capped = None
    fixpoint = False
    try:
        level = 0
        while level <= depth:
            expand = level < depth
            n = len(frontier)
            if n == 0:
                fixpoint = capped is None
                break
            csize = max(1, min(200, n // (NPROC * 4) + 1))
            chunks = [(frontier[i:i + csize], expand) for i in range(0, n, csize)]
            nxt = []
            aborted = False
            for res in pool.imap(_work, chunks):
                if res[0] == "error":
                    raise RuntimeError("worker failed:\n" + res[1])
                _, succ, out = res
                total.merge(out)
                for d, h in succ:
                    if (d not in seen) if dedup else True:
                        seen[d] = None
                        nxt.append(h)
                if budget_s is not None and time.time() - t0 > 2 * budget_s:
                    # a level that alone exceeds twice the budget is abandoned (what it found so far is kept)
                    capped = "time budget %ss exceeded twice inside level %d: level abandoned" % (budget_s, level)
                    aborted = True
                    break
            if aborted:
                break
            levels.append(n)
            if collect is not None:
                collect.extend(frontier)
            frontier = nxt
            if expand and level + 1 < depth:
                if budget_s is not None and time.time() - t0 > budget_s:
                    capped = "time budget %ss reached after completing level %d" % (budget_s, level)
                    # the next level's states were generated: they are checked, not expanded
                    depth = level + 1
                elif max_states is not None and len(seen) > max_states:
                    capped = "state budget %d reached after completing level %d" % (max_states, level)
                    depth = level + 1
            level += 1
    finally:
        pool.terminate()
        pool.join()
    stats = {
        "states": sum(levels),
        "levels": levels,
        "depth_completed": len(levels) - 1,
        "fixpoint": fixpoint,
        "capped": capped,
        "wall_s": round(time.time() - t0, 2),
    }
    return total, stats


def pmap(modname, tier, params, func_name, items, chunk=50):
    """exhaustive sweep helper: run spec.<func_name>(item, out) over all items in parallel"""
    ctx = multiprocessing.get_context("fork")
    pool = ctx.Pool(NPROC, initializer=_init, initargs=(modname, tier, params))
    total = Out()
    try:
        chunks = [(func_name, items[i:i + chunk]) for i in range(0, len(items), chunk)]
        for res in pool.imap(_sweep_work, chunks):
            if res[0] == "error":
                raise RuntimeError("worker failed:\n" + res[1])
            total.merge(res[1])
    finally:
        pool.terminate()
        pool.join()
    return total


def _sweep_work(args):
    func_name, items = args
    out = Out()
    try:
        f = getattr(_SPEC, func_name)
        for it in items:
            _arm()
            try:
                f(it, out)
            except CaseTimeout:
                out.violation("does-not-terminate", "case-limit-%ss" % CASE_LIMIT_S,
                              {"item": repr(it)[:500]}, None)
            finally:
                _disarm()
            out.evaluations += 1
    except Exception:
        return ("error", traceback.format_exc())
    return ("ok", out)
