"""provmc - bounded exhaustive exploration of the trungdong/prov implementation."""
