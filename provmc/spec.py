"""Base class of the per-property exploration specs."""
from . import machine, values


class Spec(object):
    prop = None
    values = values.VALUES

    def __init__(self, tier, params=None):
        self.tier = tier
        self.params = params or {}
        self.alphabet = []

    # hooks -------------------------------------------------------------------------
    def check_state(self, st, out):
        pass

    mutating_checks = False  # True: check_state may change the state -> always rebuild

    def build(self, hist):
        return machine.build(self.alphabet, hist, self.values)

    def apply(self, st, op):
        machine.apply(st, op, self.values)

    def canon(self, st):
        return machine.canon(st)

    def pre(self, st, op):
        """observation of the pre-state needed by check_transition (taken before op runs)"""
        return None

    def check_transition(self, pre, op, st, out):
        pass

    def nonconformance(self, st, hist, op, exc, out):
        """the library built something else than the op says: reported by C03/C18, only
        counted elsewhere; the state is not explored further"""
        out.filters["builder-nonconformance(C03/C18)"] += 1

    def op_exception(self, st, hist, op, exc, out):
        """the library raised on an op the model enables"""
        out.filters["op-raised:%s" % type(exc).__name__] += 1

    # helpers (render/ops/build_case/sweep_case are attached below) --------------------

    def fresh(self, hist):
        """a fresh replay of a history given as indices or as ops"""
        st = machine.State()
        for op in self._as_ops(hist):
            machine.apply(st, op, self.values)
        st.hist = tuple(hist)
        return st

    def _as_ops(self, hist):
        if hist and isinstance(hist[0], int):
            return [self.alphabet[i] for i in hist]
        return list(hist)


def _render(self, hist):
    ops = self._as_ops(hist)
    return machine.render(ops, range(len(ops)), self.values)


def _ops(self, hist):
    return [repr(o) for o in self._as_ops(hist)]


def _build_case(self, ops, out):
    """build a sweep case through the machine; returns the state or None (counted)"""
    st = machine.State()
    done = 0
    try:
        for op in ops:
            machine.apply(st, op, self.values)
            out.transitions += 1
            done += 1
    except machine.NotEnabled as e:
        out.filters["case:" + e.args[0]] += 1
        return None
    except machine.NonConformance as e:
        out.filters["case:builder-nonconformance(C03/C18)"] += 1
        if done == len(ops) - 1 and getattr(self, "judges_nonconformant_calls", False):
            # (replay of a case that was judged on a non-conformant last call)
            self.nonconformance(st, tuple(ops), ops[done], e, out)
        return None
    except Exception as e:
        out.filters["case:op-raised:%s" % type(e).__name__] += 1
        return None
    st.hist = tuple(ops)
    out.conform += 1
    return st


def _sweep_case(self, case, out):
    tag, ops = case
    st = self.build_case(ops, out)
    if st is None:
        return
    if not self.case_filter(st, tag, out):
        return
    out.nontrivial += 1
    self.judge(st.doc, out, st.hist, tag, opts=self.sweep_option_sets)
    if len(out.samples) < 1:
        out.samples.append({"case": tag, "ops": [repr(o) for o in ops]})


Spec.render = _render
Spec.ops = _ops
Spec.build_case = _build_case
Spec.sweep_case = _sweep_case
Spec.case_filter = lambda self, st, tag, out: True
Spec.sweep_option_sets = [{}]
