"""The document machine (DESIGN 3.2): semantic ops -> real public-API calls, executed in
lock-step with a boring reference model (RefState) that knows nothing of the library.

A *state* is the history that reaches it; `build(hist)` replays it on fresh objects.

Scopes: 'D' (document), 'B1', 'B2' (bundle slots).
Names : (urikey, local, spelling) - intended URI = U[urikey] + local
  spelling ('s', prefix)  -> the string 'prefix:local'
           ('b',)         -> the bare string 'local' (default namespace)
           ('u',)         -> the full-URI string
           ('q', prefix)  -> QualifiedName(Namespace(prefix, uri), local); prefix may be ''
           ('i',)         -> Identifier(full uri)
Ops   : ('ns', scope, prefix, urikey)            add_namespace
        ('def', scope, urikey)                   set_default_namespace
        ('bun', slot, name)                      doc.bundle(name)
        ('el', scope, kind, name[, times])       entity/agent/activity factory
        ('rel', scope, kind, idname|None, args)  relation factory; args = names / time keys / None
        ('at', attrname, valuekey)               add_attributes on the record created last
The model is *partial*: an op whose meaning the model does not define is not enabled
(counted per reason), never guessed.
"""
import datetime

from prov.constants import PROV, XSD
from prov.identifier import Identifier, Namespace, QualifiedName
from prov.model import Literal, ProvDocument, PROV_REC_CLS

from . import observe

U = {
    "A": "http://a/",
    "B": "http://b/",
    "AB": "http://a/b/",
    "C": "http://c/",
    # a namespace that continues after the last '/' of its URI (it lies below A without being a path below it)
    "AQ": "http://a/rec?id=",
    "P": "http://www.w3.org/ns/prov#",
    "X": "http://www.w3.org/2001/XMLSchema#",
    "XI": "http://www.w3.org/2001/XMLSchema-instance",
    # an application vocabulary with a fragment-style namespace, like PROV's own
    "H": "http://h.example/voc#",
}
# a series of further namespaces (quantity cases: many namespaces offered under one prefix)
for _i in range(14):
    U["N%d" % _i] = "http://n%d.example/" % _i
PROV_URI = U["P"]
AMBIG = object()

ELEMENTS = {"entity": "Entity", "agent": "Agent", "activity": "Activity", "collection": "Entity"}
# kind -> (type local name, formal attribute local names in order, kinds of the args)
RELATIONS = {
    "generation": ("Generation", ("entity", "activity", "time")),
    "usage": ("Usage", ("activity", "entity", "time")),
    "communication": ("Communication", ("informed", "informant")),
    "start": ("Start", ("activity", "trigger", "starter", "time")),
    "end": ("End", ("activity", "trigger", "ender", "time")),
    "invalidation": ("Invalidation", ("entity", "activity", "time")),
    "derivation": ("Derivation", ("generatedEntity", "usedEntity", "activity", "generation", "usage")),
    "attribution": ("Attribution", ("entity", "agent")),
    "association": ("Association", ("activity", "agent", "plan")),
    "delegation": ("Delegation", ("delegate", "responsible", "activity")),
    "influence": ("Influence", ("influencee", "influencer")),
    "specialization": ("Specialization", ("specificEntity", "generalEntity")),
    "alternate": ("Alternate", ("alternate1", "alternate2")),
    "mention": ("Mention", ("specificEntity", "generalEntity", "bundle")),
    "membership": ("Membership", ("collection", "entity")),
}
# convenience factories that assert an additional prov:type: factory name -> (base relation kind, type local name)
SUBTYPE_FACTORIES = {"revision": ("derivation", "Revision"), "quotation": ("derivation", "Quotation"),
                     "primary_source": ("derivation", "PrimarySource")}
for _k, (_b, _t) in SUBTYPE_FACTORIES.items():
    RELATIONS[_k] = RELATIONS[_b]
NO_ID_FACTORY = {"specialization", "alternate", "mention", "membership"}
TIME_ATTRS = {"time", "startTime", "endTime"}
# number of PROV-DM-required leading arguments per relation kind
REQUIRED = {k: 1 for k in ("generation", "usage", "start", "end", "invalidation", "association")}
REQUIRED.update({k: 2 for k in ("communication", "derivation", "attribution", "delegation", "influence",
                                "specialization", "alternate", "membership")})
REQUIRED["mention"] = 3
for _k, (_b, _t) in SUBTYPE_FACTORIES.items():
    REQUIRED[_k] = REQUIRED[_b]

TIMES = {
    "t1": datetime.datetime(2012, 3, 4, 5, 6, 7),
    "t2": datetime.datetime(2013, 1, 1, 0, 0, 0, 250000),
    "t3": datetime.datetime(2014, 6, 7, 8, 9, 10, tzinfo=datetime.timezone(datetime.timedelta(hours=5, minutes=30))),
    "t4": datetime.datetime(2015, 1, 1, 12, 0, 0, tzinfo=datetime.timezone.utc),
}


class NotEnabled(Exception):
    """the reference model does not define this op in this state (reason = args[0])"""


class NonConformance(Exception):
    """the library built something else than the op's meaning (C03/C18 territory)"""


PROV_REF_LOCALS = {"entity", "activity", "trigger", "informed", "informant", "starter", "ender", "agent", "plan",
                   "delegate", "responsible", "generatedEntity", "usedEntity", "generation", "usage", "specificEntity",
                   "generalEntity", "alternate1", "alternate2", "bundle", "influencee", "influencer", "collection"}


class RefScope(object):
    __slots__ = ("bind", "alias", "reg", "default", "records", "primary")

    def __init__(self):
        self.bind = {"prov": U["P"], "xsd": U["X"], "xsi": "http://www.w3.org/2001/XMLSchema-instance"}
        self.alias = set()  # prefixes whose first binding was an alias of a registered uri
        self.reg = set()  # uris registered through the add-namespace path
        # uri -> the prefix it is registered (and printed) under; None = minted, unknown
        self.primary = {u: p_ for p_, u in self.bind.items()}
        self.default = None
        self.records = []

    def copy(self):
        c = RefScope.__new__(RefScope)
        c.bind = dict(self.bind)
        c.alias = set(self.alias)
        c.reg = set(self.reg)
        c.primary = dict(self.primary)
        c.default = self.default
        c.records = list(self.records)
        return c


class RefState(object):
    """reference model of the whole state"""

    def __init__(self):
        self.sc = {"D": RefScope()}
        self.bundle_uri = {}  # slot -> uri
        self.default_touched = {"D": False}

    def parent(self, scope):
        return None if scope == "D" else "D"

    # -- namespace semantics ------------------------------------------------------
    def _mark_minted(self, s, prefix):
        """after a clash on `prefix` the implementation owns some fresh prefix*; the
        model does not say which, so unbound look-alikes become undefined."""
        sc = self.sc[s]
        for cand in LOOKALIKES.get(prefix, ()):
            if cand not in sc.bind or cand in sc.alias:
                # unbound, or bound only as an alias (not a registered prefix): the
                # statement does not say what it denotes from now on
                sc.bind[cand] = AMBIG

    def bind_prefix(self, s, prefix, uri):
        """a declaration (explicit, or implicit through a QualifiedName) of prefix -> uri in
        scope s.  First binding wins; a clash leaves the prefix alone (the implementation
        mints a fresh one).  Whatever happens, the uri ends up registered in the scope."""
        sc = self.sc[s]
        cur = sc.bind.get(prefix)
        if cur is None:
            if uri in sc.reg:
                sc.alias.add(prefix)
            else:
                sc.primary[uri] = prefix
            sc.bind[prefix] = uri
        elif cur is AMBIG or cur == uri:
            if uri not in sc.reg:
                sc.primary.setdefault(uri, None)
        elif prefix in sc.alias:
            # an alias is not a registered prefix: the statement does not say whether a
            # later declaration re-points it
            sc.bind[prefix] = AMBIG
            if uri not in sc.reg:
                sc.primary[uri] = None
        elif uri not in sc.reg:
            self._mark_minted(s, prefix)
            sc.primary[uri] = None  # registered under a minted prefix the model does not know
        sc.reg.add(uri)

    def _unknown_prefix_bound(self, s):
        """scope s has (re-)registered a namespace under a prefix the model cannot name:
        every prefix that is still unbound there becomes undefined"""
        sc = self.sc[s]
        for p in ALL_PREFIXES:
            if p not in sc.bind:
                sc.bind[p] = AMBIG

    def resolve_prefix(self, s, prefix, use=True):
        s0 = s
        while s is not None:
            sc = self.sc[s]
            cur = sc.bind.get(prefix)
            if cur is AMBIG:
                if use and s != s0:
                    # the child may inherit (and thereby bind) whatever the ancestor means by it
                    self.sc[s0].bind[prefix] = AMBIG
                raise NotEnabled("prefix-ambiguous")
            if cur is not None:
                if use and s != s0:
                    if prefix in sc.alias:
                        # the name is printed under the namespace's registered prefix, not the
                        # alias: that prefix is what the child inherits; the alias itself stays
                        # unbound in the child (it keeps following the ancestor)
                        pfx = sc.primary.get(cur)
                        if pfx is None:
                            self._unknown_prefix_bound(s0)
                        else:
                            self.bind_prefix(s0, pfx, cur)
                    else:
                        # (c) forces it: the child hands out 'prefix:local' for this uri, so
                        # the prefix must keep denoting it in the child from now on
                        self.bind_prefix(s0, prefix, cur)
                return cur
            s = self.parent(s)
        raise NotEnabled("prefix-undeclared")

    def resolve_default(self, s):
        while s is not None:
            if self.sc[s].default is AMBIG:
                raise NotEnabled("default-unknown")
            if self.sc[s].default is not None:
                return self.sc[s].default
            s = self.parent(s)
        raise NotEnabled("no-default")

    def received_foreign_records(self, s):
        """records built elsewhere were re-created in scope s (add_record/update): their
        names carry prefixes chosen by the implementation, which scope s may now bind
        implicitly - unbound prefixes and an unset default become undefined in the model."""
        sc = self.sc[s]
        for p in ALL_PREFIXES:
            if p not in sc.bind:
                sc.bind[p] = AMBIG
        if sc.default is None:
            sc.default = AMBIG

    def covered(self, s, uri):
        """can a full URI be turned into a qualified name in scope s (some visible
        namespace is a prefix of it)?  Updates the model for the inheritance it may cause."""
        s0 = s
        own = False
        sc0 = self.sc[s0]
        for p, u in sc0.bind.items():
            if u is not AMBIG and uri.startswith(u):
                own = True
        if sc0.default not in (None, AMBIG) and uri.startswith(sc0.default) \
                and ":" not in uri[len(sc0.default):]:
            # (a bare name cannot contain a colon, so the default namespace cannot carry such a URI)
            own = True
        if own:
            return True
        par = self.parent(s0)
        if par is None:
            return False
        scp = self.sc[par]
        cands = [p for p, u in scp.bind.items() if u is not AMBIG and uri.startswith(u)]
        dflt = scp.default not in (None, AMBIG) and uri.startswith(scp.default) \
            and ":" not in uri[len(scp.default):]
        if any(uri.startswith(u) and scp.primary.get(u) is None for u in scp.reg):
            # the parent also holds a covering namespace under a prefix the model cannot name
            # (minted after a clash): the child may inherit that one
            self._unknown_prefix_bound(s0)
            if dflt and sc0.default is None:
                sc0.default = AMBIG
            return bool(cands or dflt)
        if not cands and not dflt:
            return False
        # the implementation compacts with one of the parent's namespaces and thereby uses
        # (inherits) it in the child; the model does not say which one
        if dflt and not cands:
            if sc0.default is None:
                sc0.default = scp.default
            elif sc0.default is AMBIG:
                if "dn" not in sc0.bind or "dn" in sc0.alias:
                    sc0.bind["dn"] = AMBIG
            elif sc0.default != scp.default:
                # an inherited default-namespace name in a child with another default is
                # re-homed under the 'dn' prefix (as for a QualifiedName argument)
                self.bind_prefix(s0, "dn", scp.default)
        elif len(cands) == 1 and not dflt:
            p = cands[0]
            if p in scp.alias:
                pfx = scp.primary.get(scp.bind[p])
                if pfx is None:
                    self._unknown_prefix_bound(s0)
                else:
                    self.bind_prefix(s0, pfx, scp.bind[p])
            else:
                self.bind_prefix(s0, p, scp.bind[p])
        else:
            # several candidates: which one is inherited is the implementation's choice
            for p in cands:
                if p not in sc0.bind:
                    sc0.bind[p] = AMBIG
                pfx = scp.primary.get(scp.bind[p])
                if pfx is None:
                    self._unknown_prefix_bound(s0)
                elif pfx not in sc0.bind:
                    sc0.bind[pfx] = AMBIG
            if dflt and sc0.default is None:
                sc0.default = AMBIG
            elif dflt and ("dn" not in sc0.bind or "dn" in sc0.alias):
                sc0.bind["dn"] = AMBIG
        return True

    def use_name(self, s, name):
        """meaning of handing `name` to the API in scope s (updates implicit bindings);
        returns the intended URI"""
        urikey, local, sp = name
        uri = U[urikey] + local
        if sp[0] == "s":
            if self.resolve_prefix(s, sp[1]) != U[urikey]:
                raise NotEnabled("prefix-denotes-other-uri")
        elif sp[0] == "b":
            if self.resolve_default(s) != U[urikey]:
                raise NotEnabled("default-denotes-other-uri")
            if self.sc[s].default is None:
                # H1 "adopted": the scope has handed out a name in the inherited default
                self.sc[s].default = U[urikey]
        elif sp[0] in ("u", "i"):
            if not self.covered(s, uri):
                raise NotEnabled("uri-not-coverable")
        elif sp[0] == "q":
            prefix = sp[1]
            sc = self.sc[s]
            if prefix == "" and ":" in local:
                # an unprefixed name with a colon in its local part cannot be printed unprefixed: the container
                # gives its namespace the prefix 'dn' (as it does for a second default namespace)
                self.bind_prefix(s, "dn", U[urikey])
            elif prefix == "":
                if sc.default is None:
                    sc.default = U[urikey]
                elif sc.default is AMBIG:
                    sc.bind.setdefault("dn", AMBIG)
                    if sc.bind["dn"] is not AMBIG and "dn" in sc.alias:
                        sc.bind["dn"] = AMBIG
                elif sc.default != U[urikey]:
                    self.bind_prefix(s, "dn", U[urikey])
            else:
                self.bind_prefix(s, prefix, U[urikey])
        else:
            raise ValueError(sp)
        return uri


ALL_PREFIXES = ("ex", "ex_1", "ex_2", "ex_3", "ex_1_1", "ex_2_1", "q", "q_1", "q_2", "dn", "dn_1", "dn_2", "dn_3",
                "dn_2_1", "bn", "zz", "foo", "ab", "p2", "cc")

LOOKALIKES = {
    "ex": ("ex_1", "ex_2", "ex_3"),
    "ex_1": ("ex_1_1",),
    "ex_2": ("ex_2_1",),
    "q": ("q_1", "q_2"),
    "dn": ("dn_1", "dn_2", "dn_3"),
    "dn_2": ("dn_2_1",),
    "prov": ("prov_1",),
    "xsd": ("xsd_1",),
}


class State(object):
    """live implementation objects + the reference model, advanced in lock-step"""

    def __init__(self):
        self.doc = ProvDocument()
        self.bundles = {}
        self.last = None  # (scope, index in model records, record object)
        self.ref = RefState()
        self.nscache = {}
        self.hist = ()
        self.ever_read = False  # a reading operation ("read") is part of the history

    def container(self, scope):
        return self.doc if scope == "D" else self.bundles[scope]

    # -- spelling -----------------------------------------------------------------
    def spell(self, name):
        urikey, local, sp = name
        if sp[0] == "s":
            return "%s:%s" % (sp[1], local)
        if sp[0] == "b":
            return local
        if sp[0] == "u":
            return U[urikey] + local
        if sp[0] == "i":
            return Identifier(U[urikey] + local)
        if sp[0] == "q":
            k = (sp[1], urikey)
            ns = self.nscache.get(k)
            if ns is None:
                ns = self.nscache[k] = Namespace(sp[1], U[urikey])
            return QualifiedName(ns, local)
        raise ValueError(sp)


def name_uri(name):
    return U[name[0]] + name[1]


def enabled_scope(st, scope):
    if scope != "D" and scope not in st.bundles:
        raise NotEnabled("no-such-bundle")


def apply(st, op, values=None):
    """execute one op on implementation and model; raises NotEnabled *before* touching
    the implementation, NonConformance after a builder mismatch."""
    kind = op[0]
    ref = st.ref
    if kind == "ns":
        _, scope, prefix, urikey = op
        enabled_scope(st, scope)
        ref.bind_prefix(scope, prefix, U[urikey])
        st.container(scope).add_namespace(prefix, U[urikey])
    elif kind == "def":
        _, scope, urikey = op
        enabled_scope(st, scope)
        sc = ref.sc[scope]
        if sc.default is AMBIG:
            raise NotEnabled("default-unknown")
        if sc.default is not None and sc.default != U[urikey]:
            raise NotEnabled("H1-default-rebinding")
        if sc.default == U[urikey] and ref.default_touched.get(scope):
            raise NotEnabled("default-already-set")
        sc.default = U[urikey]
        ref.default_touched[scope] = True
        st.container(scope).set_default_namespace(U[urikey])
    elif kind == "bun":
        _, slot, name = op
        if slot in st.bundles:
            raise NotEnabled("slot-taken")
        model = _fork(ref)
        uri = model.use_name("D", name)
        if uri in model.bundle_uri.values():
            raise NotEnabled("duplicate-bundle-id")
        model.sc[slot] = RefScope()
        model.bundle_uri[slot] = uri
        # the bundle identifier belongs to the bundle's scope (PROV-N 3.7, the readers):
        # handing it out there is a use of the namespace in that scope
        sp = name[2]
        if sp[0] == "b" or (sp[0] == "q" and sp[1] == ""):
            model.sc[slot].default = U[name[0]]
        elif sp[0] == "s":
            model.bind_prefix(slot, sp[1], U[name[0]])
        elif sp[0] == "q":
            model.bind_prefix(slot, sp[1], U[name[0]])
        elif sp[0] in ("u", "i"):
            model.covered(slot, uri)
        st.ref = model
        b = st.doc.bundle(st.spell(name))
        st.bundles[slot] = b
        if b.identifier is None or b.identifier.uri != uri:
            raise NonConformance("bundle identifier %r, intended <%s>" % (b.identifier, uri))
    elif kind == "el":
        scope, ekind, name = op[1], op[2], op[3]
        times = op[4] if len(op) > 4 else ()
        enabled_scope(st, scope)
        model = _fork(ref)
        uri = model.use_name(scope, name)
        attrs = []
        args = [st.spell(name)]
        if ekind == "activity":
            for fa, tk in zip(("startTime", "endTime"), tuple(times) + (None, None)):
                args.append(None if tk is None else TIMES[tk])
                if tk is not None:
                    attrs.append((PROV_URI + fa, observe.vobs(TIMES[tk])))
        if ekind == "collection":
            attrs.append((PROV_URI + "type", ("qn", PROV_URI + "Collection")))
        mrec = [PROV_URI + ELEMENTS[ekind], uri, attrs]
        model.sc[scope].records.append(mrec)
        st.ref = model
        rec = getattr(st.container(scope), ekind)(*args)
        st.last = (scope, len(model.sc[scope].records) - 1, rec)
        _conform(rec, mrec)
    elif kind == "rel":
        _, scope, rkind, idname, args = op
        enabled_scope(st, scope)
        tname, formals = RELATIONS[rkind]
        model = _fork(ref)
        uri = None if idname is None else model.use_name(scope, idname)
        attrs = []
        call = []
        for fa, a in zip(formals, args):
            if a is None:
                call.append(None)
            elif fa in TIME_ATTRS:
                call.append(TIMES[a])
                attrs.append((PROV_URI + fa, observe.vobs(TIMES[a])))
            else:
                attrs.append((PROV_URI + fa, ("qn", model.use_name(scope, a))))
                call.append(st.spell(a))
        if rkind in SUBTYPE_FACTORIES:
            attrs.append((PROV_URI + "type", ("qn", PROV_URI + SUBTYPE_FACTORIES[rkind][1])))
        mrec = [PROV_URI + tname, uri, attrs]
        model.sc[scope].records.append(mrec)
        st.ref = model
        c = st.container(scope)
        if rkind in NO_ID_FACTORY:
            if idname is None:
                rec = getattr(c, rkind)(*call)
            else:
                rec = c.new_record(
                    PROV[tname], st.spell(idname),
                    [(PROV[fa], v) for fa, v in zip(formals, call) if v is not None])
        else:
            rec = getattr(c, rkind)(*call, identifier=None if idname is None else st.spell(idname))
        st.last = (scope, len(model.sc[scope].records) - 1, rec)
        _conform(rec, mrec)
    elif kind == "at":
        _, aname, vkey = op
        if st.last is None:
            raise NotEnabled("no-record")
        scope, idx, rec = st.last
        model = _fork(ref)
        auri = model.use_name(scope, aname)
        val = values[vkey]
        vo = val.model_obs(model, scope)
        mrec = model.sc[scope].records[idx]
        mattrs = list(mrec[2])
        if (auri, vo) in mattrs:
            raise NotEnabled("attribute-value-already-present")
        if auri.startswith(PROV_URI) and (auri[len(PROV_URI):] in PROV_REF_LOCALS or auri[len(PROV_URI):] in TIME_ATTRS):
            # a PROV-DM argument name used as an additional attribute (of a record kind that may not even have
            # that argument): single-valued, a reference resp. a time
            if any(a2 == auri for a2, _ in mattrs):
                raise NotEnabled("prov-argument-already-set")
            if vo[0] != ("dt" if auri[len(PROV_URI):] in TIME_ATTRS else "qn"):
                raise NotEnabled("value-kind-not-accepted-for-a-prov-argument")
        for (a2, v2) in mattrs:
            if a2 == auri and val.py_equal_other_kind(v2, vo):
                raise NotEnabled("J1-equal-different-kind")
        mattrs.append((auri, vo))
        model.sc[scope].records[idx] = [mrec[0], mrec[1], mattrs]
        st.ref = model
        rec.add_attributes([(st.spell(aname), val.make(st, scope))])
        _conform(rec, model.sc[scope].records[idx])
    elif kind == "asrt":
        # add_asserted_type on the record created last: a prov:type value arriving through the record-level editor
        # (any value add_attributes takes for prov:type: a qualified name of a namespace the container may not have
        # seen yet, a literal ...)
        _, vkey = op
        if st.last is None:
            raise NotEnabled("no-record")
        scope, idx, rec = st.last
        val = values[vkey]
        model = _fork(ref)
        vo = val.model_obs(model, scope)
        mrec = model.sc[scope].records[idx]
        auri = PROV_URI + "type"
        if (auri, vo) in mrec[2]:
            raise NotEnabled("attribute-value-already-present")
        for (a2, v2) in mrec[2]:
            if a2 == auri and val.py_equal_other_kind(v2, vo):
                raise NotEnabled("J1-equal-different-kind")
        model.sc[scope].records[idx] = [mrec[0], mrec[1], list(mrec[2]) + [(auri, vo)]]
        st.ref = model
        rec.add_asserted_type(val.make(st, scope))
        _conform(rec, model.sc[scope].records[idx])
    elif kind == "settime":
        # ProvActivity.set_time on the record created last (a setter: replaces)
        _, which, tkey = op
        if st.last is None:
            raise NotEnabled("no-record")
        scope, idx, rec = st.last
        model = _fork(ref)
        mrec = model.sc[scope].records[idx]
        if mrec[0] != PROV_URI + "Activity":
            raise NotEnabled("not-an-activity")
        attr = PROV_URI + ("startTime" if which == "start" else "endTime")
        new = (attr, observe.vobs(TIMES[tkey]))
        if new in mrec[2]:
            raise NotEnabled("attribute-value-already-present")
        model.sc[scope].records[idx] = [mrec[0], mrec[1], [a for a in mrec[2] if a[0] != attr] + [new]]
        st.ref = model
        if which == "start":
            rec.set_time(startTime=TIMES[tkey])
        else:
            rec.set_time(endTime=TIMES[tkey])
        _conform(rec, model.sc[scope].records[idx])
    elif kind == "read":
        # reading operations in the middle of a history (every accessor of every record, the flattened attribute
        # lists, hashing, comparing, unifying): no effect on the content, but part of the history
        if st.ever_read:
            raise NotEnabled("already-read")
        observe.touch(st.doc)
        for c in [st.doc] + list(st.doc.bundles):
            for r in c.get_records():
                r.attributes
                hash(r)
                r == r
        try:
            st.doc.unified()
        except Exception:
            pass
        st.doc == st.doc
        st.ever_read = True
    elif kind == "get":
        # a lookup: no effect on the content, but it is a call into the container's indexes
        _, scope, name = op
        enabled_scope(st, scope)
        model = _fork(ref)
        model.use_name(scope, name)
        st.ref = model
        st.container(scope).get_record(st.spell(name))
    elif kind == "getx":
        # a lookup of a name that may denote nothing in this scope (then it finds nothing and changes nothing)
        _, scope, name = op
        enabled_scope(st, scope)
        model = _fork(ref)
        try:
            model.use_name(scope, name)
            st.ref = model
        except NotEnabled as e:
            if str(e) not in ("prefix-undeclared", "no-default", "uri-not-coverable"):
                raise
        got = st.container(scope).get_record(st.spell(name))
        if got is not None and not isinstance(got, list):
            raise NonConformance("get_record returned %r" % (got,))
    elif kind == "addb":
        # a bundle built on its own (identifier given as a QualifiedName) attached with add_bundle()
        _, slot, name = op
        if slot in st.bundles:
            raise NotEnabled("slot-taken")
        if name[2][0] != "q":
            raise NotEnabled("stand-alone-bundle-needs-a-QualifiedName")
        uri = U[name[0]] + name[1]
        if uri in ref.bundle_uri.values():
            raise NotEnabled("duplicate-bundle-id")
        model = _fork(ref)
        model.sc[slot] = RefScope()
        model.bundle_uri[slot] = uri
        if name[2][1] == "":
            model.sc[slot].default = U[name[0]]
        else:
            model.bind_prefix(slot, name[2][1], U[name[0]])
        st.ref = model
        from prov.model import ProvBundle
        b = ProvBundle(identifier=st.spell(name))
        st.doc.add_bundle(b)
        st.bundles[slot] = b
        if b.identifier is None or b.identifier.uri != uri:
            raise NonConformance("bundle identifier %r, intended <%s>" % (b.identifier, uri))
    elif kind == "addrec":
        _, tscope, sscope, idx = op
        enabled_scope(st, tscope)
        enabled_scope(st, sscope)
        if tscope == sscope:
            raise NotEnabled("same-scope")
        src = ref.sc[sscope].records
        if idx >= len(src):
            raise NotEnabled("no-such-record")
        model = _fork(ref)
        mrec = [src[idx][0], src[idx][1], list(src[idx][2])]
        model.sc[tscope].records.append(mrec)
        model.received_foreign_records(tscope)
        st.ref = model
        rec = st.container(tscope).add_record(st.container(sscope).get_records()[idx])
        st.last = (tscope, len(model.sc[tscope].records) - 1, rec)
        _conform(rec, mrec)
    elif kind == "upd":
        _, tscope, sscope = op
        enabled_scope(st, tscope)
        enabled_scope(st, sscope)
        if tscope == sscope or sscope == "D":
            raise NotEnabled("update-source")
        if not ref.sc[sscope].records:
            raise NotEnabled("empty-source")
        model = _fork(ref)
        for r in ref.sc[sscope].records:
            model.sc[tscope].records.append([r[0], r[1], list(r[2])])
        model.received_foreign_records(tscope)
        st.ref = model
        st.container(tscope).update(st.container(sscope))
        st.last = None
    else:
        raise ValueError("unknown op %r" % (op,))


def _fork(ref):
    m = RefState.__new__(RefState)
    m.sc = {k: v.copy() for k, v in ref.sc.items()}
    m.bundle_uri = dict(ref.bundle_uri)
    m.default_touched = dict(ref.default_touched)
    return m


def model_robs(mrec):
    return (mrec[0], mrec[1], tuple(sorted(mrec[2], key=repr)))


def _conform(rec, mrec):
    got = observe.robs(rec)
    want = model_robs(mrec)
    if got != want:
        raise NonConformance("record built %r, intended %r" % (got, want))


def model_dobs(st):
    ref = st.ref
    top = observe.mset([model_robs(r) for r in ref.sc["D"].records])
    bundles = []
    for slot, uri in ref.bundle_uri.items():
        bundles.append((uri, observe.mset([model_robs(r) for r in ref.sc[slot].records])))
    return (top, tuple(sorted(bundles)))


def build(alphabet, hist, values=None):
    """replay a history (tuple of op indices) on fresh objects"""
    st = State()
    for i in hist:
        apply(st, alphabet[i], values)
    st.hist = tuple(hist)
    return st


# -- canonical state key (white-box reads, used for de-duplication only) ------------
def _nskey(ns):
    return (ns.prefix, ns.uri)


def _mgr_key(m):
    return (
        tuple((p, _nskey(ns)) for p, ns in m.items()),
        tuple((p, _nskey(ns)) for p, ns in m._namespaces.items()),
        tuple(sorted((u, _nskey(ns)) for u, ns in m._uri_map.items())),
        tuple(sorted((_nskey(a), _nskey(b)) for a, b in m._rename_map.items())),
        tuple(sorted((p, _nskey(ns)) for p, ns in m._prefix_renamed_map.items())),
        None if m._default is None else _nskey(m._default),
    )


def _val_key(v):
    o = observe.vobs(v)
    if isinstance(v, QualifiedName):
        return (o, str(v))
    if isinstance(v, Literal) and v.datatype is not None:
        return (o, str(v.datatype))
    return o


def _rec_key(r):
    return (
        r.get_type().uri,
        None if r.identifier is None else (str(r.identifier), r.identifier.uri),
        tuple((str(a), a.uri, tuple(_val_key(v) for v in vs)) for a, vs in r._attributes.items() if vs),
    )


def _cont_key(c):
    # the lookup index is state too (a lookup of an absent identifier leaves an empty entry behind)
    idx = tuple((None if k is None else getattr(k, "uri", str(k)), len(v)) for k, v in c._id_map.items())
    return (_mgr_key(c._namespaces), tuple(_rec_key(r) for r in c._records), idx)


def canon(st):
    try:
        key = [_cont_key(st.doc)]
        for slot in sorted(st.bundles):
            b = st.bundles[slot]
            key.append((slot, str(b.identifier), b.identifier.uri, _cont_key(b)))
        # bundle order in the document
        key.append(tuple(str(k) for k in st.doc._bundles))
        key.append(None if st.last is None else st.last[:2])
        # model fields that decide future enabledness
        ref = st.ref
        key.append(tuple(sorted(
            (s, tuple(sorted((p, "?" if u is AMBIG else u) for p, u in sc.bind.items())),
             tuple(sorted(sc.alias)), tuple(sorted(sc.reg)), "?" if sc.default is AMBIG else sc.default,
             tuple(sorted((u, str(p_)) for u, p_ in sc.primary.items())))
            for s, sc in ref.sc.items())))
        key.append(tuple(sorted(ref.default_touched.items())))
        key.append(st.ever_read)
        return repr(key)
    except AttributeError:
        # internal layout changed: fall back to the history itself (no merging, still sound)
        return "H" + repr(st.hist)


# -- rendering a history as plain-API python (replay artefacts) ---------------------
def render(alphabet, hist, values=None):
    lines = [
        "import datetime",
        "from prov.model import ProvDocument, Literal",
        "from prov.identifier import Namespace, QualifiedName, Identifier",
        "from prov.constants import PROV",
        "d = ProvDocument(); c = {'D': d}",
    ]

    def sp(name):
        urikey, local, s = name
        if s[0] == "s":
            return repr("%s:%s" % (s[1], local))
        if s[0] == "b":
            return repr(local)
        if s[0] == "u":
            return repr(U[urikey] + local)
        if s[0] == "i":
            return "Identifier(%r)" % (U[urikey] + local)
        return "QualifiedName(Namespace(%r, %r), %r)" % (s[1], U[urikey], local)

    for i in hist:
        op = alphabet[i]
        k = op[0]
        if k == "ns":
            lines.append("c[%r].add_namespace(%r, %r)" % (op[1], op[2], U[op[3]]))
        elif k == "def":
            lines.append("c[%r].set_default_namespace(%r)" % (op[1], U[op[2]]))
        elif k == "bun":
            lines.append("c[%r] = d.bundle(%s)" % (op[1], sp(op[2])))
        elif k == "el":
            extra = ""
            if len(op) > 4:
                extra = "".join(", %r" % (None if t is None else TIMES[t]) for t in op[4])
            lines.append("r = c[%r].%s(%s%s)" % (op[1], op[2], sp(op[3]), extra))
        elif k == "rel":
            _, scope, rkind, idname, args = op
            tname, formals = RELATIONS[rkind]
            call = []
            for fa, a in zip(formals, args):
                call.append("None" if a is None else (repr(TIMES[a]) if fa in TIME_ATTRS else sp(a)))
            if rkind in NO_ID_FACTORY and idname is not None:
                pairs = ", ".join("(PROV[%r], %s)" % (fa, v) for fa, v in zip(formals, call) if v != "None")
                lines.append("r = c[%r].new_record(PROV[%r], %s, [%s])" % (scope, tname, sp(idname), pairs))
            elif rkind in NO_ID_FACTORY:
                lines.append("r = c[%r].%s(%s)" % (scope, rkind, ", ".join(call)))
            else:
                lines.append("r = c[%r].%s(%s, identifier=%s)" % (
                    scope, rkind, ", ".join(call), "None" if idname is None else sp(idname)))
        elif k == "at":
            lines.append("r.add_attributes([(%s, %s)])" % (sp(op[1]), values[op[2]].source))
        elif k == "asrt":
            lines.append("r.add_asserted_type(%s)" % values[op[1]].source)
        elif k == "settime":
            lines.append("r.set_time(%s=%r)" % ("startTime" if op[1] == "start" else "endTime", TIMES[op[2]]))
        elif k in ("get", "getx"):
            lines.append("c[%r].get_record(%s)" % (op[1], sp(op[2])))
        elif k == "read":
            lines.append("[(x.attributes, x.args, hash(x), x == x) for cc in [d] + list(d.bundles) for x in cc.get_records()]; d == d")
            lines.append("try: d.unified()\nexcept Exception: pass")
        elif k == "addb":
            lines.append("from prov.model import ProvBundle; c[%r] = ProvBundle(identifier=%s); d.add_bundle(c[%r])" % (
                op[1], sp(op[2]), op[1]))
        elif k == "addrec":
            lines.append("r = c[%r].add_record(c[%r].get_records()[%d])" % (op[1], op[2], op[3]))
        elif k == "upd":
            lines.append("c[%r].update(c[%r])" % (op[1], op[2]))
        else:
            lines.append("# op %r" % (op,))
    return "\n".join(lines)
