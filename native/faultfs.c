/* faultfs - LD_PRELOAD shim that injects failures into file-system calls that touch paths
 * under a sandbox prefix.  Armed from Python through ctypes:
 *   faultfs_reset(prefix)                         clear rules and counters, set sandbox prefix
 *   faultfs_rule(op, nth, action, err, arg)       when the nth (1-based) call of `op` on a sandbox
 *                                                 path happens: action 1 = fail with errno err,
 *                                                 action 2 = short write of arg bytes (then succeed)
 *   faultfs_count(op)                             number of calls of `op` seen on sandbox paths
 * ops: 1 write  2 rename  3 sendfile  4 copy_file_range  5 open-for-writing  6 unlink  7 fsync  8 close
 */
#define _GNU_SOURCE
#include <dlfcn.h>
#include <errno.h>
#include <fcntl.h>
#include <limits.h>
#include <stdarg.h>
#include <stdio.h>
#include <string.h>
#include <sys/types.h>
#include <unistd.h>

#define NOPS 9
#define MAXRULES 16

static char prefix[PATH_MAX] = "";
static size_t prefix_len = 0;
static long counts[NOPS];
static struct { int op; long nth; int action; int err; long arg; int used; } rules[MAXRULES];
static int nrules = 0;

void faultfs_reset(const char *p) {
    memset(counts, 0, sizeof counts);
    nrules = 0;
    if (p) { strncpy(prefix, p, PATH_MAX - 1); prefix[PATH_MAX - 1] = 0; } else prefix[0] = 0;
    prefix_len = strlen(prefix);
}

int faultfs_rule(int op, long nth, int action, int err, long arg) {
    if (nrules >= MAXRULES) return -1;
    rules[nrules].op = op; rules[nrules].nth = nth; rules[nrules].action = action;
    rules[nrules].err = err; rules[nrules].arg = arg; rules[nrules].used = 0;
    nrules++;
    return 0;
}

long faultfs_count(int op) { return (op >= 0 && op < NOPS) ? counts[op] : -1; }

static int in_sandbox_path(const char *path) {
    char buf[PATH_MAX];
    if (!prefix_len || !path) return 0;
    if (path[0] != '/') {
        char cwd[PATH_MAX];
        if (!getcwd(cwd, sizeof cwd)) return 0;
        snprintf(buf, sizeof buf, "%s/%s", cwd, path);
        path = buf;
    }
    return strncmp(path, prefix, prefix_len) == 0;
}

static int in_sandbox_fd(int fd) {
    char link[64], target[PATH_MAX];
    ssize_t n;
    if (!prefix_len) return 0;
    snprintf(link, sizeof link, "/proc/self/fd/%d", fd);
    n = readlink(link, target, sizeof target - 1);
    if (n <= 0) return 0;
    target[n] = 0;
    return strncmp(target, prefix, prefix_len) == 0;
}

/* returns the matching rule index or -1; bumps the counter */
static int hit(int op) {
    int i;
    counts[op]++;
    for (i = 0; i < nrules; i++)
        if (!rules[i].used && rules[i].op == op && rules[i].nth == counts[op]) { rules[i].used = 1; return i; }
    return -1;
}

ssize_t write(int fd, const void *buf, size_t n) {
    static ssize_t (*real)(int, const void *, size_t);
    if (!real) real = dlsym(RTLD_NEXT, "write");
    if (fd > 2 && in_sandbox_fd(fd)) {
        int r = hit(1);
        if (r >= 0) {
            if (rules[r].action == 1) { errno = rules[r].err; return -1; }
            if (rules[r].action == 2 && (size_t)rules[r].arg < n) return real(fd, buf, (size_t)rules[r].arg);
        }
    }
    return real(fd, buf, n);
}

int rename(const char *a, const char *b) {
    static int (*real)(const char *, const char *);
    if (!real) real = dlsym(RTLD_NEXT, "rename");
    if (in_sandbox_path(a) || in_sandbox_path(b)) {
        int r = hit(2);
        if (r >= 0 && rules[r].action == 1) { errno = rules[r].err; return -1; }
    }
    return real(a, b);
}

int renameat(int fa, const char *a, int fb, const char *b) {
    static int (*real)(int, const char *, int, const char *);
    if (!real) real = dlsym(RTLD_NEXT, "renameat");
    if ((fa == AT_FDCWD && in_sandbox_path(a)) || (fb == AT_FDCWD && in_sandbox_path(b))) {
        int r = hit(2);
        if (r >= 0 && rules[r].action == 1) { errno = rules[r].err; return -1; }
    }
    return real(fa, a, fb, b);
}

int renameat2(int fa, const char *a, int fb, const char *b, unsigned int flags) {
    static int (*real)(int, const char *, int, const char *, unsigned int);
    if (!real) real = dlsym(RTLD_NEXT, "renameat2");
    if ((fa == AT_FDCWD && in_sandbox_path(a)) || (fb == AT_FDCWD && in_sandbox_path(b))) {
        int r = hit(2);
        if (r >= 0 && rules[r].action == 1) { errno = rules[r].err; return -1; }
    }
    return real(fa, a, fb, b, flags);
}

ssize_t sendfile(int out, int in, off_t *off, size_t n) {
    static ssize_t (*real)(int, int, off_t *, size_t);
    if (!real) real = dlsym(RTLD_NEXT, "sendfile");
    if (in_sandbox_fd(out)) {
        int r = hit(3);
        if (r >= 0) {
            if (rules[r].action == 1) { errno = rules[r].err; return -1; }
            if (rules[r].action == 2 && (size_t)rules[r].arg < n) return real(out, in, off, (size_t)rules[r].arg);
        }
    }
    return real(out, in, off, n);
}

ssize_t sendfile64(int out, int in, off64_t *off, size_t n) {
    static ssize_t (*real)(int, int, off64_t *, size_t);
    if (!real) real = dlsym(RTLD_NEXT, "sendfile64");
    if (in_sandbox_fd(out)) {
        int r = hit(3);
        if (r >= 0) {
            if (rules[r].action == 1) { errno = rules[r].err; return -1; }
            if (rules[r].action == 2 && (size_t)rules[r].arg < n) return real(out, in, off, (size_t)rules[r].arg);
        }
    }
    return real(out, in, off, n);
}

ssize_t copy_file_range(int in, off64_t *oi, int out, off64_t *oo, size_t n, unsigned int flags) {
    static ssize_t (*real)(int, off64_t *, int, off64_t *, size_t, unsigned int);
    if (!real) real = dlsym(RTLD_NEXT, "copy_file_range");
    if (in_sandbox_fd(out)) {
        int r = hit(4);
        if (r >= 0) {
            if (rules[r].action == 1) { errno = rules[r].err; return -1; }
            if (rules[r].action == 2 && (size_t)rules[r].arg < n) return real(in, oi, out, oo, (size_t)rules[r].arg, flags);
        }
    }
    return real(in, oi, out, oo, n, flags);
}

static int open_common(const char *path, int flags) {
    if ((flags & (O_WRONLY | O_RDWR)) && in_sandbox_path(path)) {
        int r = hit(5);
        if (r >= 0 && rules[r].action == 1) { errno = rules[r].err; return -1; }
    }
    return 0;
}

int open(const char *path, int flags, ...) {
    static int (*real)(const char *, int, ...);
    mode_t mode = 0;
    if (!real) real = dlsym(RTLD_NEXT, "open");
    if (flags & (O_CREAT | O_TMPFILE)) { va_list ap; va_start(ap, flags); mode = va_arg(ap, mode_t); va_end(ap); }
    if (open_common(path, flags) < 0) return -1;
    return real(path, flags, mode);
}

int open64(const char *path, int flags, ...) {
    static int (*real)(const char *, int, ...);
    mode_t mode = 0;
    if (!real) real = dlsym(RTLD_NEXT, "open64");
    if (flags & (O_CREAT | O_TMPFILE)) { va_list ap; va_start(ap, flags); mode = va_arg(ap, mode_t); va_end(ap); }
    if (open_common(path, flags) < 0) return -1;
    return real(path, flags, mode);
}

int openat(int dfd, const char *path, int flags, ...) {
    static int (*real)(int, const char *, int, ...);
    mode_t mode = 0;
    if (!real) real = dlsym(RTLD_NEXT, "openat");
    if (flags & (O_CREAT | O_TMPFILE)) { va_list ap; va_start(ap, flags); mode = va_arg(ap, mode_t); va_end(ap); }
    if (dfd == AT_FDCWD && open_common(path, flags) < 0) return -1;
    return real(dfd, path, flags, mode);
}

int openat64(int dfd, const char *path, int flags, ...) {
    static int (*real)(int, const char *, int, ...);
    mode_t mode = 0;
    if (!real) real = dlsym(RTLD_NEXT, "openat64");
    if (flags & (O_CREAT | O_TMPFILE)) { va_list ap; va_start(ap, flags); mode = va_arg(ap, mode_t); va_end(ap); }
    if (dfd == AT_FDCWD && open_common(path, flags) < 0) return -1;
    return real(dfd, path, flags, mode);
}

int unlink(const char *path) {
    static int (*real)(const char *);
    if (!real) real = dlsym(RTLD_NEXT, "unlink");
    if (in_sandbox_path(path)) {
        int r = hit(6);
        if (r >= 0 && rules[r].action == 1) { errno = rules[r].err; return -1; }
    }
    return real(path);
}

int fsync(int fd) {
    static int (*real)(int);
    if (!real) real = dlsym(RTLD_NEXT, "fsync");
    if (in_sandbox_fd(fd)) {
        int r = hit(7);
        if (r >= 0 && rules[r].action == 1) { errno = rules[r].err; return -1; }
    }
    return real(fd);
}

int close(int fd) {
    static int (*real)(int);
    if (!real) real = dlsym(RTLD_NEXT, "close");
    if (fd > 2 && in_sandbox_fd(fd)) {
        int r = hit(8);
        if (r >= 0 && rules[r].action == 1) { int e = rules[r].err; real(fd); errno = e; return -1; }
    }
    return real(fd);
}
