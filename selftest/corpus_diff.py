"""Validation of the independent readers: differential run over the shipped corpora
(tests/json/*.json, tests/xml/*.xml) against the library's readers."""
import glob, os, sys, collections
sys.path.insert(0, os.path.dirname(os.path.dirname(os.path.abspath(__file__))))
from prov.model import ProvDocument
from provmc import observe
from provmc.indep import json_reader, xml_reader
repo = os.environ.get("PROVMC_REPO", "/repo")
res = collections.Counter()
for fmt, pat, rd in (("json", "src/prov/tests/json/*.json", json_reader.read), ("xml", "src/prov/tests/xml/*.xml", xml_reader.read)):
    for f in sorted(glob.glob(os.path.join(repo, pat))):
        text = open(f, encoding="utf-8").read()
        try:
            d = ProvDocument.deserialize(content=text, format=fmt)
        except Exception as e:
            res[fmt + ":lib-raises:" + type(e).__name__] += 1
            continue
        got, problems = rd(text)
        want = observe.dobs(d)
        if problems:
            res[fmt + ":problems"] += 1
            print(os.path.basename(f), problems[:2])
        elif got != want:
            res[fmt + ":differs"] += 1
            print(os.path.basename(f), observe.classify_diff(want, got), observe.diff_obs(want, got)[:2])
        else:
            res[fmt + ":agree"] += 1
print(dict(res))
