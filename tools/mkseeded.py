#!/usr/bin/env python3
"""Assemble /verif/seeded/<PROP>-<X>/ (patch.diff, demo.py, notes.md, meta.json) from the sub-agents'
output directories and the seedtest result files, and print the markdown table for DESIGN.md 12.6.

usage: mkseeded.py <seeds dir> <now results dir> <wave letters>=<first results dir> ...
   e.g. mkseeded.py /tmp/seeds /tmp/seedres_final AB=/tmp/seedres_first CD=/tmp/seedres2_before EF=/tmp/seedres3_first

"first" = the property's own quick check as it was when that wave's sub-agents started; "now" = as committed.
patch.diff is the change rebased on the current /repo tree where a later fix: commit touched the same lines
(the sub-agent's original is kept as patch.orig.diff)."""
import json
import os
import re
import shutil
import sys

VERIF = os.path.dirname(os.path.dirname(os.path.abspath(__file__)))
seeds, now = sys.argv[1:3]
first_of = {}
for a in sys.argv[3:]:
    letters, d = a.split("=")
    for l in letters:
        first_of[l] = d
NOT_MEASURED = set(os.environ.get("NOT_MEASURED", "").split())
WAVE = {"A": 1, "B": 1, "C": 2, "D": 2, "E": 3, "F": 3, "G": 4, "H": 4, "I": 5, "J": 6, "K": 7, "L": 8}


def load(d, prop, letter):
    try:
        return json.load(open(os.path.join(d, "%s%s.json" % (prop, letter))))
    except Exception:
        return None


def one_line(notes):
    for line in notes.splitlines():
        l = line.strip(" #*-`")
        if len(l) > 30 and not l.lower().startswith(("notes", "property")):
            l = re.sub(r"^(C\d\d\s*)?[/ ]*\s*(seed\s+)?[A-L]\b\s*(\((PROV-\w+)\))?\s*[-:—]+\s*", "", l, flags=re.I)
            l = re.sub(r"^C\d\d\s*(seed|/)\s*[A-L]\s*[-:—]+\s*", "", l, flags=re.I)
            return re.sub(r"\s+", " ", l).replace("|", "/")[:170]
    return ""


rows = []
for prop in sorted(os.listdir(seeds)):
    pdir = os.path.join(seeds, prop)
    if not os.path.isdir(pdir):
        continue
    for letter in "ABCDEFGHIJKL":
        patch = os.path.join(pdir, letter + ".patch")
        if not os.path.exists(patch):
            continue
        r1 = load(first_of.get(letter, ""), prop, letter)
        r2 = load(now, prop, letter)
        gone = bool(r2 and r2.get("baseline_ok") and r2.get("demo_without_change_exit") == 0 and r2.get("demo_with_change_exit") == 0)
        if not r2 or not (r2.get("valid_seed") or gone):
            print("skipping %s/%s (not confirmed on the current tree: %s)" % (prop, letter, (r2 or {}).get("error", "")[:60]), file=sys.stderr)
            continue
        if "%s/%s" % (prop, letter) in NOT_MEASURED:
            r1 = None
        out = os.path.join(VERIF, "seeded", "%s-%s" % (prop, letter))
        os.makedirs(out, exist_ok=True)
        shutil.copy(patch, os.path.join(out, "patch.diff"))
        if os.path.exists(patch + ".orig"):
            shutil.copy(patch + ".orig", os.path.join(out, "patch.orig.diff"))
        shutil.copy(os.path.join(pdir, letter + "_demo.py"), os.path.join(out, "demo.py"))
        notes = ""
        npath = os.path.join(pdir, letter + "_notes.md")
        if os.path.exists(npath):
            shutil.copy(npath, os.path.join(out, "notes.md"))
            notes = open(npath).read()
        first_caught = None if r1 is None or "checks" not in r1 else bool(r1.get("caught_by_own_check"))
        old_meta = {}
        if os.path.exists(os.path.join(out, "meta.json")):
            old_meta = json.load(open(os.path.join(out, "meta.json")))
        if r1 is None and letter not in first_of and os.path.exists(os.path.join(out, "meta.json")):
            # no first-wave result directory given for this letter: keep what was recorded when it was assembled
            first_caught = json.load(open(os.path.join(out, "meta.json"))).get("own_check_when_the_wave_started")
        meta = {
            "seed": "%s-%s" % (prop, letter),
            "wave": WAVE[letter],
            "breaks_property": prop,
            "origin": "independent sub-agent that saw only the text of %s, the one-line descriptions of the earlier "
                      "seeds for it and a scratch worktree of /repo" % prop,
            "what": one_line(notes),
            "needs_to_manifest": "see notes.md",
            "rebased_on_current_tree": os.path.exists(patch + ".orig"),
            "demo_adjusted": os.path.exists(os.path.join(pdir, letter + "_demo.py.orig")) or bool(old_meta.get("demo_adjusted")),
            "still_manifests": not gone,
            "replay_artefact": r2.get("replay"),
            "confirmed_in_scratch_worktree": {
                "tree": "scratch worktree of /repo at its HEAD when evaluated",
                "baseline_with_change": r2.get("baseline_with_change"),
                "demo_exit_without_change": r2.get("demo_without_change_exit"),
                "demo_exit_with_change": r2.get("demo_with_change_exit"),
                "command": "tools/seedtest.py <dir> %s %s  (applies patch.diff in a scratch worktree, runs tools/baseline.py, "
                           "the demo with and without the change, then ./check %s quick with PROVMC_REPO=<scratch>)" % (letter, prop, prop),
            },
            "own_check_when_the_wave_started": first_caught,
            "own_check_now": {"caught": r2.get("caught_by_own_check"),
                              "first_lines": [re.sub(r"replay=\S+", "replay=<scratch>", x) for x in r2["checks"][prop]["first"][:2]]},
        }
        with open(os.path.join(out, "meta.json"), "w") as f:
            json.dump(meta, f, indent=1, ensure_ascii=False)
        rows.append(meta)

print("| seed | wave | what the change does (first line of the sub-agent's notes) | own check when the wave started | own check now | clause that fires now |")
print("|---|---|---|---|---|---|")
for m in rows:
    f1 = {None: "not measured", True: "caught", False: "missed"}[m["own_check_when_the_wave_started"]]
    f2 = "caught" if m["own_check_now"]["caught"] else ("**missed**" if m["still_manifests"] else "n/a (no longer manifests)")
    cl = ""
    for x in m["own_check_now"]["first_lines"]:
        mm = re.search(r"clause=(\S+)", x)
        if mm:
            cl = mm.group(1)
    print("| %s | %d | %s | %s | %s | %s |" % (m["seed"], m["wave"], m["what"], f1, f2, cl))
n = len(rows)
print("\n%d seeds; caught when their wave started: %d; caught now: %d; no longer manifest: %d; replay reproduces: %d" % (
    n, sum(1 for m in rows if m["own_check_when_the_wave_started"]), sum(1 for m in rows if m["own_check_now"]["caught"]),
    sum(1 for m in rows if not m["still_manifests"]),
    sum(1 for m in rows if (m.get("replay_artefact") or {}).get("on_changed_tree_violations", 0) >= 1
        and (m.get("replay_artefact") or {}).get("on_unchanged_tree_violations", 1) == 0)), file=sys.stderr)
