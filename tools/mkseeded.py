#!/usr/bin/env python3
"""Assemble /verif/seeded/<PROP>-<X>/ (patch.diff, demo.py, notes.md, meta.json) from the sub-agents'
output directories and the seedtest result files.
usage: mkseeded.py <seeds dir> <first-wave results dir> <current results dir>"""
import json
import os
import shutil
import sys

VERIF = os.path.dirname(os.path.dirname(os.path.abspath(__file__)))
seeds, first, cur = sys.argv[1:4]
rows = []
for prop in sorted(os.listdir(seeds)):
    pdir = os.path.join(seeds, prop)
    if not os.path.isdir(pdir):
        continue
    for letter in ("A", "B", "C", "D"):
        patch = os.path.join(pdir, letter + ".patch")
        if not os.path.exists(patch):
            continue
        def load(d):
            try:
                return json.load(open(os.path.join(d, "%s%s.json" % (prop, letter))))
            except Exception:
                return None
        r1, r2 = load(first), load(cur)
        r = r2 or r1
        if not r or not r.get("valid_seed"):
            print("skipping %s/%s (not confirmed)" % (prop, letter))
            continue
        out = os.path.join(VERIF, "seeded", "%s-%s" % (prop, letter))
        os.makedirs(out, exist_ok=True)
        shutil.copy(patch, os.path.join(out, "patch.diff"))
        shutil.copy(os.path.join(pdir, letter + "_demo.py"), os.path.join(out, "demo.py"))
        notes = os.path.join(pdir, letter + "_notes.md")
        needs = ""
        if os.path.exists(notes):
            shutil.copy(notes, os.path.join(out, "notes.md"))
            needs = open(notes).read()
        meta = {
            "seed": "%s-%s" % (prop, letter),
            "breaks_property": prop,
            "origin": "independent sub-agent that saw only the text of %s and a scratch worktree of /repo" % prop,
            "needs_to_manifest": "see notes.md",
            "confirmed_in_scratch_worktree": {
                "baseline_with_change": r.get("baseline_with_change"),
                "demo_exit_without_change": r.get("demo_without_change_exit"),
                "demo_exit_with_change": r.get("demo_with_change_exit"),
                "command": "tools/seedtest.py <dir> %s %s ALL  (applies patch.diff in a scratch worktree, runs tools/baseline.py, "
                           "the demo with and without the change, then ./check <id> quick with PROVMC_REPO=<scratch>)" % (letter, prop),
            },
            "first_wave": None if r1 is None else {"caught_by_own_check": r1.get("caught_by_own_check")},
            "now": None if r2 is None else {"caught_by_own_check": r2.get("caught_by_own_check"), "caught_by": r2.get("caught_by"),
                                            "own_check_first_lines": r2["checks"][prop]["first"][:2]},
        }
        with open(os.path.join(out, "meta.json"), "w") as f:
            json.dump(meta, f, indent=1)
        rows.append((meta["seed"], r1 and r1.get("caught_by_own_check"), r2 and r2.get("caught_by_own_check"), (r2 or {}).get("caught_by")))
for row in rows:
    print(row)
