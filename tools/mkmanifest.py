#!/usr/bin/env python3
"""Regenerate /verif/MANIFEST.json from the table below (claimed checks) - properties that
have no check are listed under not_applicable with the reason given in NA."""
import json
import os

HERE = os.path.dirname(os.path.dirname(os.path.abspath(__file__)))
TECH = ("explicit-state model checking of the implementation: exhaustive breadth-first exploration of "
        "public-API call histories with canonical-state de-duplication, lock-step reference model")
NOTE = ("bounded: only the listed alphabets (names, values, options) and histories up to the completed depth/"
        "fix-point; trusted: CPython, the explorer, strict observation (provmc/observe.py), the reference model")

CLAIMED = {
    "C01": ("Every document reachable by <= depth calls of the document alphabet (about 67 letters, DESIGN 12.2: namespace declarations at document "
            "and bundle level, bundles created and attached, every name spelling, elements, relations, attributes, in-place editors incl. asserted types in namespaces the container has not seen) and every case of the cartesian "
            "shape sweep (15 namespace environments x 55 record shapes x id modes x all value kinds and attribute-name classes, incl. application attributes named like PROV-DM arguments in a fragment-style namespace on every record kind, x json.dump "
            "options, plus quantity cases: the 3rd / 11th / 12th / 14th entity, relation, attribute name, value, bundle, namespace under one prefix) is written as PROV-JSON, read back and compared strictly (URI level, kind-aware, multiset); every document that round-trips is then edited in place (set_time, add_attributes in a new namespace, a new record) and written again through the same serializer object: the second text must denote the edited document and equal a fresh export. "
            "Exhaustive within the stated alphabet and bound, nothing sampled.  One recorded finding (F44, two bundles printing alike) is reported as KNOWN-FINDING.", TECH + "; exhaustive shape sweeps", NOTE),
    "C03": ("All interleavings of add_namespace / set_default_namespace / valid_qualified_name (QualifiedName "
            "objects incl. unprefixed ones with a colon in the local part, Namespace objects that have already minted names, prefix:local, bare and full-URI strings, clashing / alias / generated-looking prefixes, nested "
            "URIs) are explored on the real NamespaceManager: one scope to a fix-point of the canonical state (verdict "
            "for histories of every length over that alphabet), two and three scopes to a depth bound; (a) and (b) on "
            "every transition, (c) on every state, plus lock-step agreement with a reference resolver.",
            TECH + " (run to a fix-point for one scope)", NOTE),
    "C18": ("Every state reachable by <= depth record-adding calls (factories in every spelling, new_record, "
            "add_record, update, on a document and a bundle; a default namespace nested under a prefixed one) and every container derived from it by constructor / "
            "unified / flattened / update / add_bundle / JSON / XML reload is probed (string spellings before QualifiedName objects) with every spelling of every "
            "present identifier, absent ones and spellings the container cannot resolve at all (unknown prefix, blank-node id, bare name, uncovered URI, empty string; questions that cannot register a namespace first), also after the transformations and exporters have read the container; look-ups of unresolvable names are part of the histories; get_record, get_records(cls) and records are compared with a scan (and typed listings must be snapshots: consumed after a later addition they still show the earlier state) "
            "of the record list.", TECH, NOTE),
    "C08": ("Every document reachable by <= depth record/attribute additions that make identifiers collide (same "
            "identifier through a prefix, an alias prefix and the full URI; entity/agent/activity; generation/usage; "
            "conflicting times and activities; identified memberships with and without a member; document and bundle; the bare spelling under a default namespace of the same URI (one identifier that prints in two ways); set_time and a reading operation as letters; 39 letters) is unified and compared with a reference "
            "unification computed on strict observations: result content and order, refusal iff a single-valued "
            "conflict exists, idempotence, bundle-level unified(), source unchanged; when a record editor leaves the library's reading of a record different from the calls made, unified() is judged against the reference model.", TECH, NOTE),
    "C09": ("All states of a 25-letter document alphabet (incl. falsy values and PROV argument names as additional attributes) to depth 3 are collected; for every ordered pair (d, other) "
            "every sequence of up to 2 operations (thorough: 3 on the smallest pairs, 1-2 on deep x shallow and deep x deep pairs) from update / add_bundle (document, no identifier, "
            "duplicate identifier as object and as string, stand-alone bundle, bundle under another identifier, unresolvable identifier, a bundle made by another document under a string identifier) / flattened is executed on fresh replays and compared step by "
            "step with multiset arithmetic on strict observations; other must stay unchanged, refusals must leave d "
            "unchanged, and the result must survive a PROV-JSON round trip.", TECH, NOTE),
    "C12": ("All states of a 16-letter alphabet (incl. a renamed prefix and a bundle that cannot be unified) to depth 3 (thorough 4) x every deriving operation (record copy, add_record, constructor, "
            "into another and into the own container, update, add_bundle(document), unified, flattened, JSON/XML reload) x every follow-up mutation (attribute "
            "on each record, new record, add_namespace incl. clashing, set_default_namespace, bundle(), the same "
            "inside each bundle) x side mutated (thorough: x a second mutation on the other side); the untouched "
            "side's ordered strict content and namespace observation must not change, and it must resolve names given as strings exactly as its twin (same history and derivation, no mutation) does; mutations include names given as strings under the pre-bound prefixes (xsi, xsd); every history of <= 2 letters x derivation x side x string-name mutation is also run as a pristine case - in a freshly forked process in which only that history, that one derivation (built lazily) and that mutation have run, so per-process state of the library cannot have been touched before.", TECH, NOTE),
    "C04": ("For every state of the document alphabet to depth 3 (thorough 4) and every single-record shape, "
            "the family of all one-step content-preserving variants (rotations, reversal, prefix renaming, record "
            "duplication, rebuild, JSON/XML reload) and content-changing edits (identifier, kind, attribute value / "
            "name / presence / kind, record, bundle, bundle identifier, record placement; the base edited in place after it was hashed; bases with memberships holding 2-4 members) is realised through the public API; "
            "== / != are evaluated on every ordered pair of documents, bundles and records of the family and compared "
            "with set equality of strict observations; symmetry, reflexivity, transitivity over all triples, hash "
            "consistency; scripts/prov-compare is run as a subprocess on a subset in both argument orders.", TECH, NOTE),
    "C13": ("Every state of the document alphabet to depth 3 (thorough 4) x every ordered sequence of exporter calls "
            "(PROV-JSON x options, PROV-XML x force_types, RDF, PROV-N, DOT x options, graph, ==, hash, unified, "
            "flattened; longer sequences on shallower states): after every call the ordered strict content and the "
            "namespace observation must be unchanged; one serializer object used for two exports must give the text of a fresh export both times; the same export repeated, and on a twin document built by the "
            "same calls, must give identical output (RDF under deterministic blank-node labels, else isomorphic); PROV-JSON text must be what the json module prints for the same data under the options of that very call; exports interleaved with construction must not influence the final exports.",
            TECH, NOTE),
    "C05": ("Full product of 18 record kinds x 5 creation paths (typed factory, element convenience method, new_record x 3) x every accepted representation of each formal "
            "argument (record object, QualifiedName, prefix:local, full URI, Identifier; datetime, ISO string, typed literal) x "
            "optional-argument masks (new_record also without the second formal argument), each followed by every sequence of <= 1 (thorough 2) follow-up additions "
            "(same value, same value in another representation, different value, the same time reading at another UTC offset, unparsable value; add_attributes "
            "dict / pair list / one-shot iterator / set_time), executed in lock-step with a reference record: normal-form invariant after "
            "every call, refusal iff a different value is offered for a filled formal attribute, refusals change "
            "nothing; plus 1320 literal-vs-native cases over every attribute class and entry path.", TECH, NOTE),
    "C02": ("Same enumerations as C01 (history exploration of the document alphabet; cartesian shape sweep over 15 "
            "namespace environments x 55 record shapes x id modes x all value kinds x prov:type/label/value/location/"
            "role and user attributes) restricted by the quantifier's expressibility clauses X1-X4 (each counted), "
            "written as PROV-XML with force_types False and True, read back and compared strictly.",
            TECH + "; exhaustive shape sweeps", NOTE),
    "C10": ("The enumerations of C01 and C02 (history exploration + shape sweep, all writer options) are re-run with "
            "independent readers as the oracle: a PROV-JSON reader on the json module and a PROV-XML reader on "
            "ElementTree.iterparse with its own namespace-scope stack, both written from the specifications' structural "
            "rules and importing nothing from prov; the structural rules must hold on the emitted text and the "
            "recovered document must equal the strict observation of the original, so a symmetric writer/reader "
            "mistake or a renamed key is caught; every document judged clean is then edited in place (set_time, add_attributes, a new record) and emitted and judged again in every format.", TECH + "; independent specification-derived readers as oracle",
            NOTE + "; the independent readers (validated by a differential run over the 398 JSON + 44 XML corpus files: "
            "agreement except the J1-excluded 1/True attribute sets) are trusted"),
    "C06": ("The C01 enumerations (history exploration + shape sweep over all record shapes, argument masks, id modes, "
            "value kinds, namespace environments) under the quantifier's PROV-N clauses N1 and N3 (each counted): the text "
            "of get_provn()/serialize('provn') must parse under the W3C PROV-N grammar with an independent hand-written "
            "tokenizer + recursive-descent parser (markers only in optional positions, id; only on relations, "
            "declarations first, bundles last, ECHAR escapes, typed / language literals) and the parsed document must "
            "equal the strict observation of the original.", TECH + "; independent PROV-N parser as oracle",
            NOTE + "; the PROV-N parser (written from the grammar as recalled in DESIGN appendix A.1) is trusted"),
    "C14": ("Every bundle-free document reachable by <= depth calls of a 33-letter alphabet (declared and undeclared "
            "endpoints, entity+agent under one identifier, eight relation kinds, self-loops incl. loops on undeclared names whose two roles imply different kinds, parallel duplicates, "
            "identified/anonymous, missing endpoints, attributes incl. names that are graph data keys: relation, key, weight) is converted with prov_to_graph and compared with a "
            "reference graph computed from the reference unification (after two decoy documents using the same names in other roles were converted): node multiset, inferred nodes and their kinds, edge multiset "
            "with endpoints by URI and the carried relation, MultiDiGraph-ness; graph_to_prov must return the unified "
            "document restricted to elements and two-ended relations.", TECH, NOTE),
    "C15": ("A product of 35 graph structures (n-ary, annotated, one-ended, parallel, self-loop, 0-2 bundles sharing URIs, duplicates inside a bundle only, cross-scope references "
            "with the document) and 18 markup-significant texts x 7 positions (label, value, URI value, qualified-name "
            "value, attribute name, identifier, bundle identifier) x 3 placements, runs of 4 kB and 8 kB of text ending in escaped characters at every offset of a window below the 4096 / 8192 marks, plus all states of a bundle-aware "
            "history alphabet to depth 2 (thorough 3), each under all 80 option sets; Graphviz (dot -Tdot_json) must "
            "accept the text and the parsed structure (clusters, element nodes per unified record and cluster, generic "
            "nodes, relation paths, n-ary legs, annotation tables, HTML-like label skeletons and texts) must equal the "
            "expectation.", TECH + "; Graphviz as independent DOT reader", NOTE + "; Graphviz 2.43 is trusted as DOT and HTML-like label parser"),
    "C16": ("Full product of 15 documents (non-ASCII identifiers and values, bundles, 20 kB string, dense non-ASCII, Unicode line separators, text that Unicode normalisation would change: decomposed accents next to composed twins, compatibility characters; inside the C01/C02/"
            "C07 spaces) x 4 formats + 3 writer-option variants x 8 destinations (returned str, StringIO, GB18030 text file, tempfile text and binary wrappers, codecs writer, binary stream, path with non-ASCII and %XX in its name, paths whose names are near the 255-byte limit in multi-byte and in ASCII characters, relative path from two working directories) compared "
            "pairwise (bytes = UTF-8 of the text; XML by canonical form), then x 9 sources (content str/bytes, text/"
            "binary stream seekable and non-seekable, GB18030 text file, tempfile text wrapper, path) x up to 4 readers (deserialize, prov.read with format in "
            "either case, prov.read without format - an exploration of the stream position its detection attempts "
            "leave behind), each successful read followed by an edit of the returned document and a second read of a fresh source of the same kind (the text's document again, a new object), and the path rewritten with another document and read again; PROV-N must not be read back.  The path destination and path source are also exercised in a child process whose default text encoding is ASCII (LC_ALL=C): same bytes, same document.  Other non-UTF-8 locales are not installed here.", "exhaustive enumeration of the finite product of documents, "
            "formats, destination kinds, source kinds and readers on the real API (environment-answer enumeration)", NOTE),
    "C17": ("Fault enumeration at the system-call boundary (LD_PRELOAD shim native/faultfs.c interposing write, rename*, "
            "sendfile, copy_file_range, open*, unlink, fsync for sandbox paths): full product of 4 formats x document "
            "sizes (1, several, many write calls) x 18 destination names (incl. a non-ASCII name in composed and in decomposed Unicode form, a symbolic link to a regular file and names near the 255-byte limit in multi-byte and ASCII characters) (relative, absolute, space, non-ASCII, '#', '?', '%20', '%', '&', '~', "
            "';', ':', sub-directory; given as str, pathlib.Path and bytes) x destination absent / pre-existing / pre-existing after this very document had been saved there before x every schedule with <= 1 (thorough 2) deviations from the "
            "fault-free call sequence: k-th write fails or is short for every k, the move fails once, fails every time (EACCES / EPERM) or answers EXDEV and the "
            "copy fallback's steps fail, close fails, temp-file removal fails, the serialiser itself raises.  Success must create "
            "exactly the named file with exactly the BytesIO bytes and touch nothing else; failure must reach the caller "
            "and leave the named file byte-identical.",
            "exhaustive fault/crash-point enumeration at the libc boundary on the real write path (deviation-bounded: "
            "0, 1, 2 environment deviations)",
            "bounded by the listed names/sizes/schedules; a crash is modelled as the failing call returning an error; "
            "trusted: the interposition shim sees every relevant call CPython makes, CPython, the harness"),
    "C07": ("History exploration of the document alphabet, the generic shape sweep and RDF-specific families (15 relation "
            "kinds x argument masks x anonymous/identified x 11 extras; all ordered pairs of 9 relation shapes sharing a "
            "subject; documents with bundles), restricted to the PROV-O-expressible space by one counted predicate per "
            "clause of the quantifier; every document is written as TriG and read back under ascending and descending "
            "blank-node labels (rdflib's uuid4 source is owned by the harness); the set observation must equal that of "
            "unified(), no exception, verdict independent of blank-node order.", TECH + "; exhaustive shape sweeps; "
            "blank-node order as an enumerated environment dimension",
            NOTE + "; rdflib is exercised, not verified; two sub-spaces that PROV-O cannot distinguish are filtered and "
            "counted (R0: identified alternate/specialization/membership, R3b, R8b: plain + qualified association to the same "
            "agent, R10: PROV argument name foreign to the record kind), see DESIGN.md 12.4"),
    "C11": ("(a) Specification-driven generation: the reference documents of the shape sweep are written by foreign "
            "PROV-JSON / PROV-XML writers (provmc/indep, not the library's) in every dialect with <= 1 (thorough 2) "
            "deviations from the base spelling (wrapped values / formal arguments / records, multi-entity membership, "
            "every literal spelling, prefix blocks on document and/or bundle, key order, default namespace; XML: subtype "
            "elements, xsi:type on records, redundant string types, nested declarations, other xsd prefix, comments, "
            "prov:other, comments / processing instructions / CDATA / character references inside values and outside the document element, empty language tag, end-of-day time spelling, xsi:type on time elements, non-UTF-8 declaration in decoded text ...), each deviation everywhere and at its first/last site.  (b) Every single-point mutant of the "
            "398 JSON + 44 XML corpus files under the five operators of the quantifier.  Every text is loaded: a library "
            "error, or a document that is stable under re-serialisation in the same and the other format and equals the "
            "reference document / the independent reader's reading of the text.",
            TECH.replace("breadth-first exploration of public-API call histories with canonical-state de-duplication",
                         "enumeration of input texts (dialect deviations bounded by count, all single-point corpus "
                         "mutants)") + "; independent writers/readers as oracle",
            NOTE + "; the foreign writers and independent readers are trusted and self-checked (each generated text is "
            "read back by the independent reader before it is used)"),
}

NA = {}


def main():
    props = [json.loads(l)["id"] for l in open(os.path.join(HERE, "properties.jsonl"))]
    checks = []
    for pid in props:
        if pid not in CLAIMED:
            continue
        text, tech, note = CLAIMED[pid]
        level = "fault_enumeration" if pid == "C17" else "model_checking"
        checks.append({
            "property_id": pid,
            "quick_cmd": "./check %s quick" % pid,
            "thorough_cmd": "./check %s thorough" % pid,
            "evidence_file": "/verif/evidence/%s.json" % pid,
            "replay_cmd_template": "./check %s quick --replay {path}" % pid,
            "engine": "provmc",
            "technique": tech,
            "level_claimed": {"category": level, "text": text, "design_ref": "DESIGN.md section 5 " + pid},
            "level_note": note,
        })
    na = [{"property_id": p, "reason": NA.get(p, "check not built yet (work in progress; see DESIGN.md section 11)")}
          for p in props if p not in CLAIMED]
    m = {
        "version": 1,
        "setup_cmd": "sh tools/setup.sh",
        "hooks": {
            "guard": "PROV_VERIF",
            "enable": "no hooks are needed: the checks drive the public API of /repo/src (PYTHONPATH) and interpose "
                      "outside the library; PROV_VERIF=1 is exported by ./check for uniformity",
            "baseline_off_cmd": "cd /repo && /venv/bin/python -m pytest -ra -q -p no:cacheprovider --timeout=900 "
                                "--continue-on-collection-errors",
            "source_commits": [],
            "add_only": True,
        },
        "engines": [{
            "name": "provmc", "path": "/verif/provmc", "serves_properties": sorted(CLAIMED),
            "kind_free_text": "hand-written explicit-state explorer for Python: level-synchronous exhaustive BFS over "
                              "histories of real public-API calls on fresh objects (16 worker processes), canonical-"
                              "state de-duplication, lock-step reference model, exhaustive shape sweeps, independent "
                              "readers, syscall-level fault enumeration",
        }],
        "checks": checks,
        "not_applicable": na,
        "notes": "see DESIGN.md; known_findings.json lists repaired (fixed) and recorded (known) defects",
    }
    with open(os.path.join(HERE, "MANIFEST.json"), "w") as f:
        json.dump(m, f, indent=1)
    print("claimed:", sorted(CLAIMED), "not claimed:", [x["property_id"] for x in na])


if __name__ == "__main__":
    main()
