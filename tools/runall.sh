#!/bin/sh
# run every claimed check (tier $1, default quick) and print one summary line each
cd "$(dirname "$0")/.."
TIER=${1:-quick}
for p in $(python3 -c "import json;print(' '.join(c['property_id'] for c in json.load(open('MANIFEST.json'))['checks']))"); do
  ./check $p $TIER | grep -E "^(C[0-9]+ |VIOLATION|KNOWN|ERROR|WARNING)" | cut -c1-220
done
