#!/bin/sh
# run the named checks (tier $1, then property ids) and print one summary line each
cd "$(dirname "$0")/.."
TIER=$1; shift
for p in "$@"; do
  ./check $p $TIER | grep -E "^(C[0-9]+ |VIOLATION|KNOWN|ERROR|WARNING|   clause)" | cut -c1-260
done
