#!/venv/bin/python
"""Run the pinned baseline suite in a tree (default /repo) and compare with
/root/.vp/BASELINE.json's stable_pass list.  Exit 0 iff every stable test passes.
usage: baseline.py [repo_dir]
"""
import json, os, subprocess, sys, tempfile
import xml.etree.ElementTree as ET

repo = os.path.abspath(sys.argv[1]) if len(sys.argv) > 1 else "/repo"
base = json.load(open("/root/.vp/BASELINE.json"))
stable = set(base["stable_pass"])
fd, junit = tempfile.mkstemp(suffix=".xml")
os.close(fd)
env = dict(os.environ)
env["PYTHONDONTWRITEBYTECODE"] = "1"
if repo != "/repo":
    env["PYTHONPATH"] = os.path.join(repo, "src")
env.pop("PROV_VERIF", None)
p = subprocess.run(
    ["/venv/bin/python", "-m", "pytest", "-q", "-p", "no:cacheprovider", "--timeout=900",
     "--continue-on-collection-errors", "-x" if False else "-q", "--junitxml=" + junit],
    cwd=repo, env=env, stdout=subprocess.PIPE, stderr=subprocess.STDOUT, text=True)
passed = set()
for tc in ET.parse(junit).getroot().iter("testcase"):
    if not any(c.tag in ("failure", "error", "skipped") for c in tc):
        passed.add("%s::%s" % (tc.get("classname"), tc.get("name")))
os.unlink(junit)
missing = sorted(stable - passed)
print("baseline: %d stable, %d passed now, %d stable tests NOT passing" % (len(stable), len(passed), len(missing)))
for m in missing[:20]:
    print("  MISSING", m)
sys.exit(1 if missing else 0)
