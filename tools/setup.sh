#!/bin/sh
# MANIFEST.setup_cmd - run once in /verif after a fresh restore, offline.
# Builds the libc fault-injection shim for C17 (if its source is present) into /verif/build.
set -e
cd "$(dirname "$0")/.."
mkdir -p build evidence
if [ -f native/faultfs.c ]; then
  gcc -O1 -shared -fPIC -o build/faultfs.so native/faultfs.c -ldl
fi
/venv/bin/python -B -c "import prov, lxml, rdflib, pydot, networkx, dateutil" 
echo setup ok
