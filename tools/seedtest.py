#!/usr/bin/env python3
"""Evaluate one seeded change: seedtest.py <dir with X.patch X_demo.py> <X> <PROP> [other props ...|ALL]

In a scratch worktree of /repo (never /repo itself):
  1. demo without the change  -> must exit 0
  2. apply the patch; the pinned baseline suite must still pass; demo -> must exit 1
  3. run ./check <PROP> quick (and the other named checks) with PROVMC_REPO=<scratch>: which raise an alarm?
  4. revert.
Prints a JSON summary.
"""
import json
import os
import subprocess
import sys

VERIF = os.path.dirname(os.path.dirname(os.path.abspath(__file__)))
WT = os.environ.get("SEED_WT", "/tmp/wt/eval")


def sh(cmd, **kw):
    return subprocess.run(cmd, shell=isinstance(cmd, str), capture_output=True, text=True, **kw)


def main():
    sdir, letter, prop = sys.argv[1], sys.argv[2], sys.argv[3]
    others = sys.argv[4:]
    if others == ["ALL"]:
        m = json.load(open(os.path.join(VERIF, "MANIFEST.json")))
        others = [c["property_id"] for c in m["checks"] if c["property_id"] != prop]
    patch = os.path.join(sdir, letter + ".patch")
    demo = os.path.join(sdir, letter + "_demo.py")
    if not os.path.isdir(WT):
        sh("git -C /repo worktree add -q --detach %s HEAD" % WT)
    sh("git -C %s checkout -q --detach %s && git -C %s checkout -- . && git -C %s clean -fdq" % (
        WT, sh("git -C /repo rev-parse HEAD").stdout.strip(), WT, WT))
    env = dict(os.environ, PYTHONPATH=os.path.join(WT, "src"), PYTHONDONTWRITEBYTECODE="1")
    res = {"seed": "%s/%s" % (os.path.basename(sdir.rstrip("/")), letter), "property": prop}
    p = sh(["/venv/bin/python", "-B", demo], env=env, cwd=WT)
    res["demo_without_change_exit"] = p.returncode
    a = sh("git -C %s apply %s" % (WT, patch))
    if a.returncode != 0:
        res["error"] = "patch does not apply: " + a.stderr[:300]
        print(json.dumps(res, indent=1))
        return 2
    try:
        b = sh(["/venv/bin/python", os.path.join(VERIF, "tools", "baseline.py"), WT])
        res["baseline_with_change"] = b.stdout.strip().splitlines()[0] if b.stdout.strip() else b.stderr[-200:]
        res["baseline_ok"] = b.returncode == 0
        p = sh(["/venv/bin/python", "-B", demo], env=env, cwd=WT)
        res["demo_with_change_exit"] = p.returncode
        res["demo_output"] = (p.stdout + p.stderr)[-400:]
        env2 = dict(os.environ, PROVMC_REPO=WT, PROVMC_OUT=os.environ.get("SEED_OUT", "/tmp/seedout"))
        res["checks"] = {}
        for pr in [prop] + others:
            c = sh(["./check", pr, "quick"], env=env2, cwd=VERIF)
            lines = [l for l in c.stdout.splitlines() if l.startswith("VIOLATION") or l.startswith("   clause")]
            res["checks"][pr] = {"exit": c.returncode, "alarm": c.returncode == 1,
                                 "first": lines[:4]}
            if pr == prop and os.environ.get("SEED_REPLAY") and lines:
                # the first replay artefact must reproduce on the changed tree and be silent on the unchanged one
                import re
                m = re.search(r"replay=(\S+)", lines[0])
                if m:
                    rp = m.group(1)
                    c1 = sh(["./check", pr, "quick", "--replay", rp], env=env2, cwd=VERIF)
                    c2 = sh(["./check", pr, "quick", "--replay", rp], env=dict(os.environ, PROVMC_OUT=env2["PROVMC_OUT"]), cwd=VERIF)
                    res["replay"] = {"on_changed_tree_violations": c1.stdout.count("VIOLATION"),
                                     "on_unchanged_tree_violations": c2.stdout.count("VIOLATION"),
                                     "on_unchanged_tree_exit": c2.returncode}
    finally:
        sh("git -C %s checkout -- . && git -C %s clean -fdq" % (WT, WT))
    res["valid_seed"] = bool(res.get("baseline_ok") and res.get("demo_with_change_exit") == 1
                             and res.get("demo_without_change_exit") == 0)
    res["caught_by_own_check"] = res["checks"][prop]["alarm"]
    res["caught_by"] = [k for k, v in res["checks"].items() if v["alarm"]]
    print(json.dumps(res, indent=1))
    return 0


if __name__ == "__main__":
    sys.exit(main())
