#!/usr/bin/env python3
"""print the markdown table of seeded changes: seedtable.py <first results dir> <current results dir>"""
import glob
import json
import os
import re
import sys

first, cur = sys.argv[1:3]
VERIF = os.path.dirname(os.path.dirname(os.path.abspath(__file__)))


def load(d, name):
    try:
        return json.load(open(os.path.join(d, name)))
    except Exception:
        return None


def one_line(seed):
    p = os.path.join(VERIF, "seeded", seed, "notes.md")
    if not os.path.exists(p):
        return ""
    txt = open(p).read()
    for line in txt.splitlines():
        l = line.strip(" #*-")
        if len(l) > 30 and not l.lower().startswith(("seed", "notes", "property")):
            return re.sub(r"\s+", " ", l)[:150]
    return ""


print("| seed | what the change does (from the sub-agent's notes) | own check, first wave | own check, now | all checks that raise an alarm now |")
print("|---|---|---|---|---|")
names = sorted(set(os.path.basename(f) for f in glob.glob(os.path.join(first, "*.json")) + glob.glob(os.path.join(cur, "*.json"))))
for n in names:
    r1, r2 = load(first, n), load(cur, n)
    r = r2 or r1
    if not r or not r.get("valid_seed"):
        continue
    seed = r["seed"].replace("/", "-")
    f1 = "-" if r1 is None else ("caught" if r1.get("caught_by_own_check") else "missed")
    f2 = "-" if r2 is None else ("caught" if r2.get("caught_by_own_check") else "**missed**")
    allc = "-" if r2 is None else ", ".join(r2.get("caught_by") or []) or "none"
    print("| %s | %s | %s | %s | %s |" % (seed, one_line(seed), f1, f2, allc))
